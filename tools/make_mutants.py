#!/usr/bin/env python3
"""Generate the sensitivity mutants of DESIGN.md appendix B as patch files under /verif/mutants/.

Each mutant is one deliberate property-breaking edit of /repo.  The script applies the edit to
/repo, saves `git diff` as /verif/mutants/<id>.diff and reverts /repo again.  With --verify it
also runs the repository's own test suite on the mutated tree (it must still pass: a mutant the
existing tests catch is not interesting).
"""
import json, os, subprocess, sys

REPO = "/repo"
OUT = "/verif/mutants"

SER = "rtmp/src/chunk_io/serializer.rs"
DES = "rtmp/src/chunk_io/deserializer.rs"
HS = "rtmp/src/handshake/mod.rs"
SRV = "rtmp/src/sessions/server/mod.rs"
CLI = "rtmp/src/sessions/client/mod.rs"
AMF = "amf0/src/serialization.rs"
CMD = "rtmp/src/messages/types/amf0_command.rs"

# (id, description, [(file, old, new, count)], expected-to-be-caught-by)
M = [
 ("M01", "serializer: extended timestamp written only when field > 0xFFFFFF (threshold off by one, serializer only)",
  [(SER, "    if header.timestamp_field < MAX_INITIAL_TIMESTAMP {\n        return Ok(());", "    if header.timestamp_field <= MAX_INITIAL_TIMESTAMP {\n        return Ok(());", 1)],
  ["C01", "C07"]),
 ("M02", "same threshold change on BOTH serializer and deserializer (self-consistent, so the round trip still works)",
  [(SER, "    if header.timestamp_field < MAX_INITIAL_TIMESTAMP {\n        return Ok(());", "    if header.timestamp_field <= MAX_INITIAL_TIMESTAMP {\n        return Ok(());", 1),
   (DES, "        if self.current_header.timestamp_field < MAX_INITIAL_TIMESTAMP {", "        if self.current_header.timestamp_field <= MAX_INITIAL_TIMESTAMP {", 1)],
  ["C07", "C06"]),
 ("M03", "serializer: no full header after a droppable predecessor",
  [(SER, "                    } else if previous_header.can_be_dropped {", "                    } else if false && previous_header.can_be_dropped {", 1)],
  ["C08", "C18"]),
 ("M04", "serializer: continuation chunks never carry the extended timestamp",
  [(SER, "                        header.timestamp_field = previous_header.timestamp_field;\n                        ChunkHeaderFormat::Empty", "                        header.timestamp_field = 0;\n                        ChunkHeaderFormat::Empty", 1)],
  ["C01", "C07"]),
 ("M05", "serializer: chunk size switched before the SetChunkSize message is serialized",
  [(SER, "        let packet = self.serialize(&message_payload, true, false)?;\n\n        self.max_chunk_size = new_size;", "        self.max_chunk_size = new_size;\n        let packet = self.serialize(&message_payload, true, false)?;\n", 1)],
  ["C01", "C07"]),
 ("M06", "deserializer: format-3 delta applied on every continuation chunk",
  [(DES, "            if self.current_payload_data.len() == 0 {\n                // Since we don't have any payload data yet", "            if true || self.current_payload_data.len() == 0 {\n                // Since we don't have any payload data yet", 1)],
  ["C01", "C06"]),
 ("M07", "deserializer: 3-byte csid formula uses the bytes in the wrong order",
  [(DES, "                    val: (buffer[2] as u32 * 256) + buffer[1] as u32 + 64,", "                    val: (buffer[1] as u32 * 256) + buffer[2] as u32 + 64,", 1)],
  ["C06"]),
 ("M08", "deserializer: the timestamp stage consumes its bytes before reporting NotEnoughBytes",
  [(DES, "        if self.buffer.len() < 3 {\n            return Ok(ParseStageResult::NotEnoughBytes);\n        }\n\n        let timestamp;", "        if self.buffer.len() < 3 {\n            let available = self.buffer.len();\n            let _ = self.buffer.split_to(available);\n            return Ok(ParseStageResult::NotEnoughBytes);\n        }\n\n        let timestamp;", 1)],
  ["C15", "C01"]),
 ("M09", "deserializer: chunk header not remembered per chunk stream when the chunk completes a message",
  [(DES, "        let current_header = mem::replace(&mut self.current_header, ChunkHeader::new());\n        self.previous_headers\n            .insert(current_header.chunk_stream_id, current_header);", "        let current_header = mem::replace(&mut self.current_header, ChunkHeader::new());\n        if message_to_return.is_none() || current_header.chunk_stream_id < 64 {\n            self.previous_headers\n                .insert(current_header.chunk_stream_id, current_header);\n        }", 1)],
  ["C06"]),
 ("M10", "handshake: bytes left over after packet 2 are handed back without their first byte",
  [(HS, "        self.current_stage = Stage::Complete;\n        let bytes_left = self.input_buffer.drain(..).collect();", "        self.current_stage = Stage::Complete;\n        let bytes_left: Vec<u8> = self.input_buffer.drain(..).skip(1).collect();", 1)],
  ["C05"]),
 ("M11", "handshake: the stage loop stops after one stage change",
  [(HS, "            if self.current_stage == Stage::Complete || starting_stage == self.current_stage {", "            if self.current_stage == Stage::Complete\n                || starting_stage == self.current_stage\n                || starting_stage == Stage::WaitingForPacket1\n            {", 1)],
  ["C05"]),
 ("M12", "handshake: client digest offset computed modulo 727",
  [(HS, "    let offset = (first_four_byte_sum % 728) + 12;", "    let offset = (first_four_byte_sum % 727) + 12;", 1)],
  ["C11"]),
 ("M13", "handshake: packet 2 signature keyed without the 32-byte suffix",
  [(HS, "        p2_key.extend_from_slice(&RANDOM_CRUD[..]);\n\n        let hmac1", "        if output_packet[0] == 0xff {\n            p2_key.extend_from_slice(&RANDOM_CRUD[..]);\n        }\n\n        let hmac1", 1)],
  ["C11"]),
 ("M14", "server session: acknowledgement only when the count EXCEEDS the window",
  [(SRV, "            if received >= peer_ack_size as u64 {", "            if received > peer_ack_size as u64 {", 1)],
  ["C17"]),
 ("M15", "client session: acknowledgement counter not reset after acknowledging",
  [(CLI, "                self.bytes_received_since_last_ack = 0;\n                results.push(ClientSessionResult::OutboundResponse(ack_packet));", "                results.push(ClientSessionResult::OutboundResponse(ack_packet));", 1)],
  ["C17"]),
 ("M16", "server session: bytes are counted before the peer announced a window",
  [(SRV, "        if let Some(peer_ack_size) = self.peer_window_ack_size {\n            // Count in 64 bits", "        if self.peer_window_ack_size.is_none() {\n            self.bytes_received_since_last_ack = self.bytes_received_since_last_ack.wrapping_add(bytes.len() as u32);\n        }\n\n        if let Some(peer_ack_size) = self.peer_window_ack_size {\n            // Count in 64 bits", 1)],
  ["C17"]),
 ("M17", "server session: play requests reuse the id of the previous request",
  [(SRV, "        let request_number = self.next_request_number;\n        self.next_request_number = self.next_request_number + 1;\n        self.outstanding_requests.insert(request_number, request);\n\n        let event = ServerSessionEvent::PlayStreamRequested {", "        let request_number = self.next_request_number.saturating_sub(1);\n        self.outstanding_requests.insert(request_number, request);\n\n        let event = ServerSessionEvent::PlayStreamRequested {", 1)],
  ["C09"]),
 ("M18", "server session: an accepted request stays outstanding (can be accepted twice)",
  [(SRV, "    ) -> Result<Vec<ServerSessionResult>, ServerSessionError> {\n        let request = match self.outstanding_requests.remove(&request_id) {\n            Some(x) => x,\n            None => return Err(ServerSessionError::InvalidRequestId),\n        };\n\n        match request {", "    ) -> Result<Vec<ServerSessionResult>, ServerSessionError> {\n        let request = match self.outstanding_requests.remove(&request_id) {\n            Some(x) => x,\n            None => return Err(ServerSessionError::InvalidRequestId),\n        };\n\n        if let OutstandingRequest::PublishRequested { ref stream_key, ref mode, stream_id } = request {\n            self.outstanding_requests.insert(\n                request_id,\n                OutstandingRequest::PublishRequested {\n                    stream_key: stream_key.clone(),\n                    mode: mode.clone(),\n                    stream_id,\n                },\n            );\n        }\n\n        match request {", 1)],
  ["C09"]),
 ("M19", "server session: publish is surfaced without an accepted connection",
  [(SRV, "        if self.current_state != SessionState::Connected {\n            let packet = self.create_error_packet(\n                \"NetStream.Publish.Start\",\n                \"Can't publish before connecting\",", "        if self.current_state != SessionState::Connected && self.connected_app_name.is_some() {\n            let packet = self.create_error_packet(\n                \"NetStream.Publish.Start\",\n                \"Can't publish before connecting\",", 1),
   (SRV, "        let app_name = match self.connected_app_name {\n            Some(ref name) => name.clone(),\n            None => {\n                let packet = self.create_error_packet(\n                    \"NetStream.Publish.Start\",", "        let app_name = match self.connected_app_name {\n            Some(ref name) => name.clone(),\n            None if true => String::new(),\n            None => {\n                let packet = self.create_error_packet(\n                    \"NetStream.Publish.Start\",", 1)],
  ["C09"]),
 ("M20", "server session: video is raised for a stream that is playing, not only publishing",
  [(SRV, "                    StreamState::Publishing {\n                        ref stream_key,\n                        mode: _,\n                    } => stream_key.clone(),\n                    _ => return Ok(Vec::new()), // Not a publishing stream so ignore it\n                }\n            }\n\n            None => return Ok(Vec::new()), // Video sent over an invalid stream, ignore it", "                    StreamState::Publishing {\n                        ref stream_key,\n                        mode: _,\n                    } => stream_key.clone(),\n                    StreamState::Playing { ref stream_key } => stream_key.clone(),\n                    _ => return Ok(Vec::new()), // Not a publishing stream so ignore it\n                }\n            }\n\n            None => return Ok(Vec::new()), // Video sent over an invalid stream, ignore it", 1)],
  ["C09"]),
 ("M21", "server session: ping response carries the session epoch instead of the request's timestamp",
  [(SRV, "                    event_type: UserControlEventType::PingResponse,\n                    stream_id: None,\n                    buffer_length: None,\n                    timestamp,\n                };", "                    event_type: UserControlEventType::PingResponse,\n                    stream_id: None,\n                    buffer_length: None,\n                    timestamp: timestamp.map(|_| self.get_epoch()),\n                };", 1)],
  ["C09"]),
 ("M22", "client session: ping response carries the session epoch instead of the request's timestamp",
  [(CLI, "            event_type: UserControlEventType::PingResponse,\n            buffer_length: None,\n            stream_id: None,\n            timestamp,\n        };", "            event_type: UserControlEventType::PingResponse,\n            buffer_length: None,\n            stream_id: None,\n            timestamp: timestamp.map(|_| self.get_epoch()),\n        };", 1)],
  ["C10"]),
 ("M23", "client session: publish_video_data allowed while the publish request is still pending",
  [(CLI, "        timestamp: RtmpTimestamp,\n        can_be_dropped: bool,\n    ) -> Result<ClientSessionResult, ClientSessionError> {\n        match self.current_state {\n            ClientState::Publishing => (),\n            _ => {\n                return Err(ClientSessionError::SessionInInvalidState {\n                    current_state: self.current_state.clone(),\n                });\n            }\n        }\n\n        let active_stream_id = match self.active_stream_id {\n            Some(x) => x,\n            None => {\n                return Err(ClientSessionError::NoKnownActiveStreamIdWhenRequired);\n            }\n        };\n\n        let message = RtmpMessage::VideoData { data };", "        timestamp: RtmpTimestamp,\n        can_be_dropped: bool,\n    ) -> Result<ClientSessionResult, ClientSessionError> {\n        match self.current_state {\n            ClientState::Publishing => (),\n            ClientState::PublishRequested => (),\n            _ => {\n                return Err(ClientSessionError::SessionInInvalidState {\n                    current_state: self.current_state.clone(),\n                });\n            }\n        }\n\n        let active_stream_id = match self.active_stream_id {\n            Some(x) => x,\n            None => {\n                return Err(ClientSessionError::NoKnownActiveStreamIdWhenRequired);\n            }\n        };\n\n        let message = RtmpMessage::VideoData { data };", 1)],
  ["C10"]),
 ("M24", "client session: a _result for an unknown transaction is silently ignored (not reported)",
  [(CLI, "            None => {\n                let event = ClientSessionEvent::UnknownTransactionResultReceived {\n                    additional_values: additional_args,\n                    command_object,\n                    transaction_id,\n                };\n\n                return Ok(vec![ClientSessionResult::RaisedEvent(event)]);\n            }\n        };\n\n        match outstanding_transaction {\n            OutstandingTransaction::ConnectionRequested { app_name } => {", "            None => {\n                if transaction_id > 50.0 {\n                    return Ok(Vec::new());\n                }\n\n                let event = ClientSessionEvent::UnknownTransactionResultReceived {\n                    additional_values: additional_args,\n                    command_object,\n                    transaction_id,\n                };\n\n                return Ok(vec![ClientSessionResult::RaisedEvent(event)]);\n            }\n        };\n\n        match outstanding_transaction {\n            OutstandingTransaction::ConnectionRequested { app_name } => {", 1)],
  ["C10"]),
 ("M25", "client session: stop_playback sends deleteStream on message stream 0",
  [(CLI, "    pub fn stop_playback(&mut self) -> ClientResult {", "    pub fn stop_playback(&mut self) -> ClientResult {\n        let zero_stream = 0;", 1),
   (CLI, "                let payload = message.into_message_payload(self.get_epoch(), stream_id)?;\n                let packet = self.serializer.serialize(&payload, false, false)?;\n                Ok(vec![ClientSessionResult::OutboundResponse(packet)])\n            }\n        }\n    }\n\n    /// If currently publishing on a stream key", "                let payload = message.into_message_payload(self.get_epoch(), zero_stream)?;\n                let packet = self.serializer.serialize(&payload, false, false)?;\n                Ok(vec![ClientSessionResult::OutboundResponse(packet)])\n            }\n        }\n    }\n\n    /// If currently publishing on a stream key", 1)],
  ["C10", "C18"]),
 ("M26", "client session: new chunk size adopted before the WindowAck of the same result is serialized (announced after first use)",
  [(CLI, "                let message = RtmpMessage::WindowAcknowledgement {\n                    size: self.config.window_ack_size,\n                };\n                let payload = message.into_message_payload(self.get_epoch(), 0)?;\n                let packet = self.serializer.serialize(&payload, false, false)?;\n                let event = ClientSessionEvent::ConnectionRequestAccepted;\n\n                let chunk_size_packet = self\n                    .serializer\n                    .set_max_chunk_size(self.config.chunk_size, RtmpTimestamp::new(0))?;\n", "                let chunk_size_packet = self\n                    .serializer\n                    .set_max_chunk_size(self.config.chunk_size, RtmpTimestamp::new(0))?;\n\n                let message = RtmpMessage::WindowAcknowledgement {\n                    size: self.config.window_ack_size,\n                };\n                let payload = message.into_message_payload(self.get_epoch(), 0)?;\n                let packet = self.serializer.serialize(&payload, false, false)?;\n                let event = ClientSessionEvent::ConnectionRequestAccepted;\n", 1)],
  ["C02", "C18"]),
 ("M27", "server session: epoch saturates at u32::MAX instead of wrapping",
  [(SRV, "                RtmpTimestamp::new(milliseconds as u32)", "                RtmpTimestamp::new(std::cmp::min(milliseconds, u32::max_value() as u64) as u32)", 1)],
  []),
 ("M28", "client session: a clock that goes backwards panics",
  [(CLI, "            Err(_) => RtmpTimestamp::new(0), // Time went backwards, so just consider time as at epoch", "            Err(_) => panic!(\"clock went backwards\"),", 1)],
  ["C18"]),
 ("M29", "serializer: payload slices are computed with max(chunk size, 2)",
  [(SER, "        loop {\n            let start_index = iteration * self.max_chunk_size as usize;", "        let slice_size = std::cmp::max(self.max_chunk_size, 2);\n        loop {\n            let start_index = iteration * slice_size as usize;", 1),
   (SER, "                start_index + self.max_chunk_size as usize,\n                start_index + remaining_length,", "                start_index + slice_size as usize,\n                start_index + remaining_length,", 1)],
  ["C01", "C07", "C19"]),
 ("M30", "deserializer: the whole announced message length is reserved up front for every chunk stream",
  [(DES, "        if remaining_bytes > self.current_payload_data.remaining_mut() {\n            let capacity_needed = remaining_bytes - self.current_payload_data.remaining_mut();\n            self.current_payload_data.reserve(capacity_needed);\n        }", "        if remaining_bytes > self.current_payload_data.capacity() - self.current_payload_data.len() {\n            self.current_payload_data.reserve(remaining_bytes);\n        }", 1)],
  ["C03"]),
 ("M31", "amf0: object property names longer than 65535 bytes are silently truncated (D8 as found)",
  [], []),
 ("M32", "server session: createStream hands out the same stream id again after a deleteStream",
  [(SRV, "        let stream = match self.active_streams.remove(&stream_id) {\n            Some(stream) => stream,\n            None => return Ok(Vec::new()),\n        };", "        let stream = match self.active_streams.remove(&stream_id) {\n            Some(stream) => stream,\n            None => return Ok(Vec::new()),\n        };\n\n        if stream_id + 1 == self.next_stream_id {\n            self.next_stream_id = stream_id;\n        }", 1)],
  ["C09"]),
 ("M33", "server session: closeStream of a publishing stream raises the finished event twice",
  [(SRV, "                let event = ServerSessionEvent::PublishStreamFinished {\n                    app_name,\n                    stream_key: stream_key.clone(),\n                };\n\n                vec![ServerSessionResult::RaisedEvent(event)]", "                let event = ServerSessionEvent::PublishStreamFinished {\n                    app_name,\n                    stream_key: stream_key.clone(),\n                };\n\n                vec![\n                    ServerSessionResult::RaisedEvent(event.clone()),\n                    ServerSessionResult::RaisedEvent(event),\n                ]", 1)],
  ["C09"]),
 ("M34", "client session: media is raised for any stream id, not only the active one",
  [(CLI, "            Some(active_stream_id) if active_stream_id != stream_id => return Ok(Vec::new()), // not active on this stream\n            Some(_) => (),\n        }\n\n        let event = ClientSessionEvent::VideoDataReceived { data, timestamp };", "            Some(active_stream_id) if active_stream_id != stream_id && stream_id == 0 => {\n                return Ok(Vec::new())\n            } // not active on this stream\n            Some(_) => (),\n        }\n\n        let event = ClientSessionEvent::VideoDataReceived { data, timestamp };", 1)],
  ["C10"]),
 ("M35", "client session: createStream result sends play on stream 1 regardless of the returned id",
  [(CLI, "                        let play_payload =\n                            play_message.into_message_payload(self.get_epoch(), stream_id)?;", "                        let play_payload = play_message.into_message_payload(self.get_epoch(), 1)?;", 1)],
  ["C10"]),
 ("M36", "server session: media packets are marked droppable regardless of the application's flag",
  [(SRV, "        let message = RtmpMessage::AudioData { data };\n        let payload = message.into_message_payload(timestamp, stream_id)?;\n        let packet = self.serializer.serialize(&payload, false, can_be_dropped)?;", "        let message = RtmpMessage::AudioData { data };\n        let payload = message.into_message_payload(timestamp, stream_id)?;\n        let packet = self.serializer.serialize(&payload, false, can_be_dropped || stream_id > 1)?;", 1)],
  ["C18"]),
 ("M37", "handshake: Completed is reported as soon as packet 1 has been answered",
  [], []),
 ("M38", "server session: the Abort arm `continue`s without clearing the input slice (a call holding an Abort message spins forever) - exercises the hang watchdog",
  [(SRV, "                        RtmpMessage::Abort { stream_id } => self.handle_abort_message(stream_id)?,", "                        RtmpMessage::Abort { stream_id } => {\n                            self.handle_abort_message(stream_id)?;\n                            continue;\n                        }", 1)],
  ["C03"]),
 ("M40", "amf0: strict arrays pre-allocate the declared element count (2^32-1 elements = runaway allocation) - exercises the heap cap / crash supervision",
  [("amf0/src/deserialization.rs", "    let mut values: Vec<Amf0Value> = Vec::new();\n\n    for _ in 0.._array_count {", "    let mut values: Vec<Amf0Value> = Vec::with_capacity(_array_count as usize);\n\n    for _ in 0.._array_count {", 1)],
  ["C03"]),
]

# reverts of the repairs made in this project: commit subject prefix -> expected property
REVERTS = [
 ("R01", "fix: serialize a zero-length message", ["C01", "C02", "C19"]),
 ("R02", "fix: refuse a maximum chunk size of 0", ["C19"]),
 ("R03", "fix: reassemble messages per chunk stream", ["C16"]),
 ("R04", "fix: reject AMF0 command messages with fewer than three values", ["C03"]),
 ("R05", "fix: do not underflow when a delta header carries an extended timestamp", ["C03"]),
 ("R06", "fix: return an error instead of underflowing when a header shrinks", ["C03"]),
 ("R07", "fix: serialize the play accept packets in the order they are sent", ["C18"]),
 ("R08", "fix: ignore @setDataFrame messages with fewer than two following values", ["C03", "C09"]),
 ("R09", "fix: refuse AMF0 object property names", ["C19"]),
 ("R10", "fix: a chunk never carries more than the missing part", ["C16"]),
 ("R11", "fix: count the bytes since the last acknowledgement in 64 bits", ["C17"]),
]


def sh(cmd, **kw):
    return subprocess.run(cmd, shell=True, capture_output=True, text=True, **kw)


def clean():
    sh(f"git -C {REPO} checkout -- . ")


def main():
    verify = "--verify" in sys.argv
    only = [a for a in sys.argv[1:] if not a.startswith("--")]
    os.makedirs(OUT, exist_ok=True)
    assert sh(f"git -C {REPO} status --porcelain --untracked-files=no").stdout.strip() == "", "/repo has uncommitted changes"
    index = {}
    for mid, desc, edits, expect in M:
        if only and mid not in only:
            continue
        if not edits:
            continue
        ok = True
        for f, old, new, count in edits:
            p = os.path.join(REPO, f)
            s = open(p).read()
            if s.count(old) != count:
                print(f"{mid}: anchor not found {s.count(old)}x in {f}: {old[:60]!r}")
                ok = False
                break
            open(p, "w").write(s.replace(old, new))
        if not ok:
            clean()
            continue
        diff = sh(f"git -C {REPO} diff").stdout
        status = "not verified"
        if verify:
            r = sh(f"cd {REPO} && CARGO_NET_OFFLINE=true cargo test --workspace --no-fail-fast --offline 2>&1 | grep -E '^test result|^error' ")
            import re
            passed = sum(int(x) for x in re.findall(r"(\d+) passed", r.stdout))
            failed = sum(int(x) for x in re.findall(r"(\d+) failed", r.stdout)) + r.stdout.count("test result: FAILED") * 0
            status = f"suite: {passed} passed, {failed} failed" + (" (COMPILE ERROR)" if "error" in r.stdout and passed == 0 else "")
        clean()
        open(os.path.join(OUT, mid + ".diff"), "w").write(diff)
        index[mid] = {"description": desc, "expected": expect, "suite": status}
        print(mid, status, "-", desc)
    for rid, subject, expect in REVERTS:
        if only and rid not in only:
            continue
        h = sh(f"git -C {REPO} log --format=%H --grep='^{subject}' -1").stdout.strip()
        if not h:
            print(rid, "commit not found:", subject)
            continue
        diff = sh(f"git -C {REPO} diff {h} {h}~1").stdout
        open(os.path.join(OUT, rid + ".diff"), "w").write(diff)
        index[rid] = {"description": "revert of repair " + h[:7] + ": " + subject, "expected": expect, "suite": "passes by construction (the defect was present at the pinned commit)"}
        print(rid, h[:7], subject)
    path = os.path.join(OUT, "index.json")
    old = json.load(open(path)) if os.path.exists(path) else {}
    old.update(index)
    json.dump(old, open(path, "w"), indent=1, sort_keys=True)


if __name__ == "__main__":
    main()
