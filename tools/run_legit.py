#!/usr/bin/env python3
"""False-alarm probe: apply each property-preserving change under /verif/legit/<id>/patch.diff to
/repo, run EVERY check (quick tier, --scale 0.3), expect exit 0 everywhere, undo the patch.
Writes /verif/legit/RESULTS.md.  usage: run_legit.py [ids...]"""
import json, os, subprocess, sys, time
REPO, VERIF = "/repo", "/verif"
def sh(c): return subprocess.run(c, shell=True, capture_output=True, text=True)
def main():
    only = sys.argv[1:]
    assert sh(f"git -C {REPO} status --porcelain --untracked-files=no").stdout.strip() == ""
    checks = [c["property_id"] for c in json.load(open(f"{VERIF}/MANIFEST.json"))["checks"]]
    res_path = f"{VERIF}/legit/results.json"
    results = json.load(open(res_path)) if os.path.exists(res_path) else {}
    for d in sorted(os.listdir(f"{VERIF}/legit")):
        patch = f"{VERIF}/legit/{d}/patch.diff"
        if not os.path.exists(patch) or (only and d not in only):
            continue
        a = sh(f"git -C {REPO} apply {patch}")
        if a.returncode != 0:
            print(d, "PATCH DOES NOT APPLY", a.stderr[:200]); continue
        alarms = {}
        t0 = time.time()
        try:
            for pid in checks:
                r = sh(f"cd {VERIF} && ./check {pid} --tier quick --no-evidence --scale 0.3")
                if r.returncode != 0:
                    sigs = [l.split("signature=")[1].strip() for l in r.stdout.splitlines() if l.startswith("violation:")]
                    alarms[pid] = sigs[:3] or [f"exit {r.returncode}: " + (r.stderr or r.stdout)[-200:]]
        finally:
            sh(f"git -C {REPO} checkout -- .")
        keep = {k: v for k, v in results.get(d, {}).items() if k in ("verdict", "note")}
        results[d] = dict(keep, alarms=alarms, seconds=round(time.time() - t0, 1))
        print(d, "ALARMS:" if alarms else "quiet", alarms if alarms else "", f"({results[d]['seconds']}s)")
        json.dump(results, open(res_path, "w"), indent=1, sort_keys=True)
    sh(f"find {VERIF}/replays -name '*.json' -delete")
if __name__ == "__main__":
    main()
