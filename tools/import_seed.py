#!/usr/bin/env python3
"""Import a change written by a sub-agent (given only a property's text) and confirm it myself.

usage: import_seed.py <Cxx> <n> [<Cxx> <n> ...]

Source: /tmp/seed/<Cxx>/SEED/<n>/{patch.diff, *.rs, notes.md}.  Confirmation happens in a scratch
worktree of /repo's HEAD under /tmp/seedverify (never in /repo itself):
  1. the demonstration passes on the unchanged tree,
  2. the patch applies, the code compiles, the repository's own 186 tests still pass,
  3. the demonstration fails with the patch.
Only then the change is kept as /verif/seeded/<Cxx>-<n>/ (patch.diff, demonstration, notes.md,
meta.json)."""
import json, os, re, shutil, subprocess, sys

WT = "/tmp/seedverify"
ENV = "CARGO_NET_OFFLINE=true"


def sh(cmd, cwd=None):
    return subprocess.run(cmd, shell=True, capture_output=True, text=True, cwd=cwd)


def ensure_wt():
    head = sh("git -C /repo rev-parse HEAD").stdout.strip()
    if os.path.isdir(WT):
        cur = sh("git rev-parse HEAD", cwd=WT).stdout.strip()
        if cur != head:
            sh("git checkout -q --detach " + head, cwd=WT)
    else:
        r = sh(f"git -C /repo worktree add --detach {WT} HEAD")
        assert r.returncode == 0, r.stderr
    sh("git checkout -- . && git clean -fdq -e target", cwd=WT)


def place_demos(src_dir):
    """copy demonstration files into the worktree; returns [(crate, test name)]"""
    out = []
    for f in sorted(os.listdir(src_dir)):
        if not f.endswith(".rs"):
            continue
        crate, name = "rtmp", f
        if f.startswith("amf0_"):
            crate, name = "amf0", f[len("amf0_"):]
        elif f.startswith("rtmp_"):
            crate, name = "rtmp", f[len("rtmp_"):]
        os.makedirs(f"{WT}/{crate}/tests", exist_ok=True)
        shutil.copy(os.path.join(src_dir, f), f"{WT}/{crate}/tests/{name}")
        out.append((crate, name[:-3]))
    return out


def run_demo(crate, test):
    pkg = "rml_rtmp" if crate == "rtmp" else "rml_amf0"
    r = sh(f"{ENV} cargo test -p {pkg} --test {test} --offline 2>&1 | tail -40", cwd=WT)
    ok = "test result: ok" in r.stdout and "test result: FAILED" not in r.stdout and "could not compile" not in r.stdout and "error[" not in r.stdout
    failed = "test result: FAILED" in r.stdout or "could not compile" in r.stdout
    return ok and not failed, r.stdout[-1500:]


def run_suite():
    r = sh(f"{ENV} cargo test --workspace --lib --no-fail-fast --offline 2>&1 | grep -E '^test result|^error' ", cwd=WT)
    passed = [int(x) for x in re.findall(r"(\d+) passed", r.stdout)]
    failed = sum(int(x) for x in re.findall(r"(\d+) failed", r.stdout))
    return sorted(passed, reverse=True)[:2], failed, r.stdout


def main():
    args = sys.argv[1:]
    pairs = list(zip(args[0::2], args[1::2]))
    for prop, n in pairs:
        root = os.environ.get("SEED_ROOT", "/tmp/seed")
        offset = int(os.environ.get("SEED_OFFSET", "0"))
        src = f"{root}/{prop}/SEED/{n}"
        if not os.path.isdir(src):
            print(prop, n, "no such seed directory")
            continue
        ensure_wt()
        demos = place_demos(src)
        log = {"property": prop, "seed": n}
        # 1. demo on the unchanged tree
        base_ok = []
        for crate, t in demos:
            ok, out = run_demo(crate, t)
            base_ok.append(ok)
        log["demo_passes_without_change"] = all(base_ok) and len(base_ok) > 0
        # 2. apply
        a = sh(f"git apply {src}/patch.diff", cwd=WT)
        log["patch_applies"] = a.returncode == 0
        if a.returncode != 0:
            log["apply_error"] = a.stderr[:300]
            print(prop, n, "PATCH DOES NOT APPLY to current HEAD:", a.stderr.strip()[:200])
            sh("git checkout -- . && git clean -fdq -e target", cwd=WT)
            continue
        # hide the demos while the repository's own suite runs
        passed, failed, raw = run_suite()
        log["suite_with_change"] = {"lib_tests_passed": passed, "failed": failed}
        suite_ok = passed[:2] == [168, 18] and failed == 0
        # 3. demo with the change
        with_fail = []
        for crate, t in demos:
            ok, out = run_demo(crate, t)
            with_fail.append(not ok)
            log.setdefault("demo_output_with_change", out[-600:])
        log["demo_fails_with_change"] = any(with_fail)
        sh("git checkout -- . && git clean -fdq -e target", cwd=WT)
        confirmed = log["demo_passes_without_change"] and suite_ok and log["demo_fails_with_change"]
        print(prop, n, "CONFIRMED" if confirmed else "NOT CONFIRMED", json.dumps({k: v for k, v in log.items() if k != "demo_output_with_change"}))
        if not confirmed:
            continue
        dst = f"/verif/seeded/{prop}-{int(n) + offset}"
        os.makedirs(dst, exist_ok=True)
        for f in os.listdir(src):
            shutil.copy(os.path.join(src, f), os.path.join(dst, f))
        notes = open(os.path.join(src, "notes.md")).read() if os.path.exists(os.path.join(src, "notes.md")) else ""
        first = next((l.strip("# ").strip() for l in notes.splitlines() if l.strip()), "")
        meta = {
            "property": prop,
            "summary": first[:300],
            "needs_to_manifest": "see notes.md",
            "origin": "written by a sub-agent that was given only the property text and a scratch worktree" + (" (" + os.environ["SEED_ROUND_NOTE"] + ")" if os.environ.get("SEED_ROUND_NOTE") else ""),
            "confirmed_by_me": {
                "worktree": WT + " (scratch worktree of /repo HEAD " + sh("git -C /repo rev-parse --short HEAD").stdout.strip() + ")",
                "commands": [
                    f"{ENV} cargo test -p <crate> --test <demo> --offline   (unchanged tree: passes)",
                    "git apply patch.diff",
                    f"{ENV} cargo test --workspace --lib --no-fail-fast --offline   (168 + 18 unit tests pass)",
                    f"{ENV} cargo test -p <crate> --test <demo> --offline   (with the change: fails)",
                ],
                "demo_passes_without_change": log["demo_passes_without_change"],
                "suite_with_change": log["suite_with_change"],
                "demo_fails_with_change": log["demo_fails_with_change"],
            },
            "demos": [f"{c}/tests/{t}.rs" for c, t in demos],
        }
        json.dump(meta, open(os.path.join(dst, "meta.json"), "w"), indent=1)


if __name__ == "__main__":
    main()
