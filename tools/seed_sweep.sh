#!/bin/bash
# Zero-alarm sweep: every quick check under many VERIF_SEED values.  usage: [SWEEP_PROPS="C06 C16"] seed_sweep.sh <first> <last> [tier]
# Meant for `vp run -- tools/seed_sweep.sh 1 20` (builds the simulator inside the snapshot).
cd "$(dirname "$0")/.."
export VERIF_DIR="$(pwd)"
TIER="${3:-quick}"
# under `vp run --with-repo` build against the run's own snapshot of /repo (in $VP_RUN_REPO), so that
# patches applied to /repo meanwhile (mutant runs) cannot leak into the sweep; only ever done in
# a snapshot of /verif, never in /verif itself
if [ -n "${VP_RUN_REPO:-}" ] && [ "$(pwd)" != "/verif" ]; then
  sed -i "s#/repo/#${VP_RUN_REPO}/#g" sim/Cargo.toml
  echo "building against $VP_RUN_REPO"
fi
(cd sim && CARGO_NET_OFFLINE=true cargo build --release --offline 2>&1 | tail -1)
bad=0
for seed in $(seq $1 $2); do
  for p in ${SWEEP_PROPS:-$(python3 -c "import json;print(' '.join(c['property_id'] for c in json.load(open('MANIFEST.json'))['checks']))")}; do
    out=$(VERIF_SEED=$seed sim/target/release/rtmpsim check --property $p --tier $TIER --no-evidence 2>&1); code=$?
    if [ $code -ne 0 ]; then bad=$((bad+1)); echo "SEED $seed $p exit=$code"; echo "$out" | grep -E "violation:|VIOLATION|HARNESS|  " | head -8; fi
  done
  echo "seed $seed done (bad so far: $bad)"
done
echo "sweep finished, bad=$bad"
