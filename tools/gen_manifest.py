#!/usr/bin/env python3
# Generates /verif/MANIFEST.json from the table below (kept in one place so it stays valid).
import json, subprocess
hooks = subprocess.run(["git","-C","/repo","log","--format=%H %s"],capture_output=True,text=True).stdout.splitlines()
hook_commits=[l.split()[0] for l in hooks if " verif hook " in " "+l]
CHECKS = {
 "C01": ("exploration","seeded simulation: real serializer -> link with PRNG-decided segmentation -> real deserializer; exact sequence oracle","§4 C01",
         "Seeded search over sender scripts x segmentations (400k quick / 12M thorough runs). Finds any round-trip failure that needs a particular header history, chunk size or cut position; samples, does not enumerate.",
         "Trusts the link/driver stubs; raw type-1 messages announce the chunk size in force; messages bounded to 20,000 chunks."),
 "C02": ("exploration","seeded simulation of a real ClientSession and a real ServerSession over two links: scheduler decides segmentation, interleaving of both directions and of both application drivers, clocks and configurations; exactly-once in-order media oracle plus bounded liveness at quiescence","§4 C02",
         "Seeded search over scenario scripts x configurations x interleavings (100k quick / 3M thorough runs); invariants: no Err, receiving-side events are a prefix of the items sent with identical bytes/timestamps/tags; end: both sides accepted, everything delivered exactly once, finished event raised, nothing left waiting.",
         "Window product Wc*Ws >= 4096 (ack storms are protocol-inherent below that); app names without trailing '/'; payloads bounded to 3,000 chunks."),
 "C17": ("exploration","seeded simulation with refinement against a reference counter (AckModel) stepped once per handle_input call; windows exhaustive 1..64 then sampled, re-announcements, link-decided call sizes","§4 C17",
         "Every handle_input call of real sessions (World D pair and Worlds E/F against scripted peers) is checked against the model: an Acknowledgement exactly when the count reaches W, carrying the count; conservation and count<W invariants.",
         "Counts near 2^32 unreachable; both admissible initial counters carried for the call that delivers the window."),
 "C18": ("exploration","seeded simulation with clock faults (uptime offsets around 2^24/2^32 ms, forward/backward jumps via the clock seam) and drop_droppable faults evaluated on the recorded packet history; oracle = strict reference chunk decoder + message well-formedness + expected message streams","§4 C18",
         "Each session's complete ordered packet list (all public calls) is decoded by an independent strict decoder with none/all/sampled droppable subsets removed; millions of simulated hours per run batch at no wall-clock cost.",
         "User-control events may be on stream 0 or the stream they refer to; handle_input reactions expected on stream 0 or a stream named in the causing input."),
 "C03": ("fault_enumeration","seeded simulation with hostile-peer fault injection (bitflip, overwrite, truncate, insert, duplicate, splice_header, hostile message vocabulary) into live scenarios; safety oracle (catch_unwind + overflow checks, counting allocator heap bound, worker watchdog)","§4 C03",
         "Hostile bytes arrive mid-scenario in every world (deserializer + message decoder, handshake, server session, client session), after valid prefixes, at PRNG-chosen cuts; any panic, overflow, abort, hang or attributed heap excess is reported with seed and minimised replay.",
         "AMF0 nesting bounded to 32 (C14 not claimed); heap constant 256x bytes received is generous by design; overflow-checks/debug-assertions on in the release build."),
 "C05": ("exploration","seeded simulation: two handshake endpoints over two links; scheduler decides segmentation and interleaving of both directions, who starts, trailing data; RNG seam supplies packet contents","§4 C05",
         "Seeded search over fragmentations/interleavings of real<->real and real<->reference-peer (original and fp9) handshakes; invariants: no Err, <=3073 bytes emitted with version 3, no completion before 3073 bytes received; end: both complete once, trailing bytes handed back intact exactly once.",
         "After Completed the driver routes further input to the application; the reference peer is hand-written from the RTMP 1.0 / RTMPE documents."),
 "C09": ("exploration","seeded simulation with refinement against an executable reference state machine (ServerModel): scripted client peer and scripted application actor interleaved by the scheduler with link segmentation; tracked outputs of every call matched against required/forbidden/permitted behaviour with backtracking","§4 C09, App. A.3",
         "Seeded search over histories of peer messages x application calls (valid, stale, never-issued ids; existing, deleted, never-created streams; malformed argument lists); every call's events and decoded responses must be explained by the model.",
         "Model written from the statement, permissive where it is silent (listed in DESIGN App. A.3); a failed handle_input ends the history only in half of the cases (life after an error, DESIGN 12.4 round 4): refusals are remembered until some call succeeds, so a session that is closed for good by an error is not flagged."),
 "C10": ("exploration","seeded simulation with refinement against an executable reference state machine (ClientModel): scripted application actor calling every public call in every state and scripted server peer, interleaved by the scheduler with link segmentation","§4 C10, App. A.4",
         "Seeded search over histories of application calls x server messages (current/stale/unknown transaction ids, with/without stream id, known/unknown/malformed status codes, media on active/other streams); every call's events and decoded requests must be explained by the model.",
         "Model written from the statement, permissive on Err-versus-ignore; scripted server answers at most one pending connect with _result; life after an error as in C09 (a failed answer spends its transaction)."),
 "C11": ("exploration","deterministic simulation stratified over the RNG seam: the simulator steers the handshake's random selector bytes through all 728 digest offsets per role and drives it against a reference peer using each scheme/offset; independent SHA-256/HMAC verifier","§4 C11",
         "Quick tier covers the full 2x728 (own) + 2x2x728 (received) offset grid (4368 cells, measured); thorough adds 1M random fillings. Every packet 1 digest, packet 2 signature and digest-less echo is verified by an independent HMAC-SHA256.",
         "Own SHA-256/HMAC implementation checked against FIPS 180-4 / RFC 4231 vectors at every start; role keys and the 32-byte suffix from the public RTMPE description."),
 "C15": ("exploration","differential deterministic simulation: one byte stream, four link partitions (one call, byte-by-byte, PRNG, PRNG biased into header fields) into four fresh instances; outputs and error positions compared","§4 C15",
         "Seeded search over valid library-produced, valid foreign and mutated streams; any dependence of deserializer / session results on call boundaries is reported.",
         "Sessions: no application calls during the stream under test, Acknowledgements excluded (C17), clock frozen; outputs of the failing call are not compared."),
 "C06": ("exploration","seeded simulation: independent reference encoder as foreign peer (free encoder choices drawn from the choice stream) -> link segmentation -> real deserializer; exact sequence oracle","§4 C06",
         "Seeded search over foreign encodings (csid forms, legal header formats, extended timestamps, zero-length messages, in-band chunk sizes, wrapping deltas) x segmentations.",
         "Trusts RefChunkEncoder (cross-validated against the strict RefChunkDecoder at every start); messages bounded to 5,000 chunks."),
 "C16": ("exploration","seeded simulation: multiplexing reference encoder with 2-4 messages in flight; the scheduler picks chunk by chunk which chunk stream emits next; per-message integrity oracle at completion","§4 C16",
         "Seeded search over chunk-level interleavings of messages on distinct chunk stream ids x segmentations; every message must be delivered at its last chunk with its own fields and bytes.",
         "Chunk-size changes only while no message is in flight; one message at a time per csid."),
 "C07": ("exploration","seeded simulation; recorded wire history checked by an independent strict RTMP chunk decoder (reference model)","§4 C07",
         "Every packet the real serializer emits for seeded scripts is parsed by a hand-written strict specification decoder and compared with the accepted messages.",
         "Trusts RefChunkDecoder (cross-validated against RefChunkEncoder at every start); one documented leniency (format-0 header repeated on continuation chunks)."),
 "C08": ("fault_enumeration","seeded simulation with drop_droppable fault injection; all 2^k drop subsets enumerated inside each sampled script (k<=6 quick, k<=8 thorough)","§4 C08",
         "Scripts are sampled by seed; within a script every subset of droppable packets is dropped (exhaustively for small k) and the surviving wire must decode exactly, by the real deserializer and by the reference decoder.",
         "Packets not marked droppable are never dropped (library contract)."),
 "C19": ("exploration","seeded configuration swarm (edge-biased knobs) over the codec and session-pair worlds under worker supervision (watchdog, heap cap)","§4 C19",
         "Each knob value must be refused (mandatory for inexpressible ones) or yield a working codec/session within step, heap and wall-clock supervision; hangs and runaway allocation are reported with their seed.",
         "Supervision limits (60/120 s per run, 3 GiB heap cap) are far above normal run cost; an Err surfacing later than the setter counts as refused."),
}
NA = {
 "C04": "pure function of one value list (AMF0 encode->decode): no schedule, clock, fault, interleaving, history or configuration to simulate; deciding it would be property-based testing, not deterministic simulation",
 "C12": "pure function (AMF0 wire format vs a reference codec over the value space): nothing nondeterministic or stateful for a simulator to own",
 "C13": "pure per-message conversion functions (RtmpMessage <-> MessagePayload): stateless, no environment; the session worlds exercise a sliver of it but that is not offered as a decision",
 "C14": "function of one byte string's nesting/count structure: only input shape to search, no schedule or fault dimension (the C03 generators cap AMF0 nesting to stay out of it)",
 "C20": "total functions on pairs of u32 (timestamp arithmetic): no state, no environment",
}
import os
claimed=[c for c in sorted(CHECKS) ]
m={
 "version":1,
 "setup_cmd":"cd /verif/sim && CARGO_NET_OFFLINE=true cargo build --release --offline",
 "hooks":{
   "guard":"verif-hooks (cargo feature on rml_rtmp and rml_amf0; off by default)",
   "enable":"the simulator crate /verif/sim depends on /repo/rtmp and /repo/amf0 by path with features = [\"verif-hooks\"]",
   "baseline_off_cmd":"cd /repo && cargo test --workspace --no-fail-fast --offline",
   "source_commits":hook_commits[::-1],
   "add_only":True},
 "engines":[{"name":"rtmpsim","path":"/verif/sim","serves_properties":claimed,
   "kind_free_text":"deterministic simulator: choice-stream record/replay (one seed = one run), link with PRNG-decided segmentation and fault injection, simulated clocks / RNG / map-order seams, reference models as oracles, worker processes with watchdog and counting allocator, choice-stream shrinker"}],
 "checks":[],
 "not_applicable":[{"property_id":k,"reason":v} for k,v in sorted(NA.items())],
 "notes":"All checks: ./check <id> [--tier quick|thorough]; VERIF_SEED and VERIF_TIER honoured; exit 0 held / 1 violation / 2 harness error. Known findings in /verif/known_findings.txt.",
}
for pid in claimed:
    lvl,tech,ref,text,note=CHECKS[pid]
    m["checks"].append({
      "property_id":pid,
      "quick_cmd":f"./check {pid} --tier quick",
      "thorough_cmd":f"./check {pid} --tier thorough",
      "evidence_file":f"/verif/evidence/{pid}.json",
      "replay_cmd_template":f"./check {pid} --replay {{path}}",
      "engine":"rtmpsim",
      "level_claimed":{"category":lvl,"text":text,"design_ref":ref},
      "level_note":note,
      "technique":tech})
# properties not (yet) claimed and not N/A are listed as not_applicable with the reason "check not built yet"
all_ids=[json.loads(l)["id"] for l in open("/verif/properties.jsonl")]
for pid in all_ids:
    if pid not in CHECKS and pid not in NA:
        m["not_applicable"].append({"property_id":pid,"reason":"not claimed at this commit: its simulation world is not finished yet (see DESIGN.md build order)"})
json.dump(m,open("/verif/MANIFEST.json","w"),indent=1)
print("checks:",claimed)
