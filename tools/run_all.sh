#!/bin/bash
# Run every registered check (quick by default): tools/run_all.sh [quick|thorough]
TIER="${1:-quick}"
cd "$(dirname "$0")/.."
rc=0
for p in $(python3 -c "import json;print(' '.join(c['property_id'] for c in json.load(open('MANIFEST.json'))['checks']))"); do
  s=$(date +%s.%N)
  out=$(./check $p --tier $TIER 2>&1); code=$?
  e=$(date +%s.%N)
  printf "%s exit=%d %.1fs  %s\n" $p $code $(echo "$e - $s" | bc) "$(echo "$out" | grep -E '^runs=' | head -1)"
  if [ $code -ne 0 ]; then rc=1; echo "$out" | grep -E "VIOLATION|KNOWN-FINDING|HARNESS|violation:" | head -5; fi
done
exit $rc
