#!/usr/bin/env python3
"""Sensitivity run: apply each mutant patch in /verif/mutants (and each confirmed seeded change in
/verif/seeded/*/patch.diff) to /repo, run the quick checks, record which checks report a
violation, and undo the patch straight afterwards.  Writes /verif/mutants/RESULTS.md.

usage: run_mutants.py [--all-checks] [ids...]"""
import json, os, subprocess, sys, time

REPO = "/repo"
VERIF = "/verif"


def sh(cmd):
    return subprocess.run(cmd, shell=True, capture_output=True, text=True)


def checks():
    return [c["property_id"] for c in json.load(open(f"{VERIF}/MANIFEST.json"))["checks"]]


def run_check(pid, runs=None, seed=None):
    extra = f" --runs {runs}" if runs else ""
    env = f"VERIF_SEED={seed} " if seed is not None else ""
    if seed is not None:
        extra += " --no-shrink"
    r = sh(f"cd {VERIF} && {env}./check {pid} --tier quick --no-evidence{extra}")
    sigs = [l.split("signature=")[1].strip() for l in r.stdout.splitlines() if l.startswith("violation:") and "signature=" in l]
    idx = [int(l.split("run_index=")[1].split()[0]) for l in r.stdout.splitlines() if l.startswith("violation:") and "run_index=" in l]
    run_check.first = min(idx) if idx else None
    return r.returncode, sigs


def main():
    all_checks = "--all-checks" in sys.argv
    only = [a for a in sys.argv[1:] if not a.startswith("--")]
    assert sh(f"git -C {REPO} status --porcelain --untracked-files=no").stdout.strip() == "", "/repo has uncommitted changes"
    index = json.load(open(f"{VERIF}/mutants/index.json"))
    items = []
    for mid in sorted(index):
        items.append((mid, f"{VERIF}/mutants/{mid}.diff", index[mid]["description"], index[mid]["expected"]))
    sdir = f"{VERIF}/seeded"
    if os.path.isdir(sdir):
        for d in sorted(os.listdir(sdir)):
            meta = os.path.join(sdir, d, "meta.json")
            if os.path.exists(meta):
                m = json.load(open(meta))
                items.append((d, os.path.join(sdir, d, "patch.diff"), m.get("summary", ""), m.get("expected_checks") or [m.get("property")]))
    results = {}
    res_path = f"{VERIF}/mutants/results.json"
    if os.path.exists(res_path):
        results = json.load(open(res_path))
    all_ids = checks()
    seeds = [a.split("=")[1].split(",") for a in sys.argv[1:] if a.startswith("--seeds=")]
    if seeds:
        # robustness sweep: is each change also caught under other VERIF_SEED values?  (A change
        # caught by one run in hundreds of thousands is caught by luck and can be lost again.)
        rob_path = f"{VERIF}/mutants/robustness.json"
        rob = json.load(open(rob_path)) if os.path.exists(rob_path) else {}
        for mid, patch, desc, expected in items:
            if (only and mid not in only) or not os.path.exists(patch):
                continue
            if sh(f"git -C {REPO} apply {patch}").returncode != 0:
                print(mid, "PATCH DOES NOT APPLY"); continue
            try:
                entry = rob.get(mid, {})
                for seed in seeds[0]:
                    got = {}
                    for pid in [e for e in expected if e in all_ids]:
                        code, sigs = run_check(pid, seed=seed)
                        got[pid] = {"exit": code, "first": run_check.first, "signatures": len(sigs)}
                    entry[seed] = got
                rob[mid] = entry
                bad = [(sd, pid) for sd, g in entry.items() for pid, v in g.items() if v["exit"] != 1]
                print(mid, "robust" if not bad else f"NOT CAUGHT under {bad}")
            finally:
                sh(f"git -C {REPO} checkout -- .")
            json.dump(rob, open(rob_path, "w"), indent=1, sort_keys=True)
        sh(f"find {VERIF}/replays -name '*.json' -delete")
        return
    for mid, patch, desc, expected in items:
        if only and mid not in only:
            continue
        if not os.path.exists(patch):
            continue
        a = sh(f"git -C {REPO} apply {patch}")
        if a.returncode != 0:
            print(mid, "PATCH DOES NOT APPLY:", a.stderr.strip()[:200])
            results[mid] = {"description": desc, "expected": expected, "error": "patch does not apply"}
            continue
        try:
            todo = all_ids if all_checks else [e for e in expected if e in all_ids]
            caught = {}
            first = {}
            t0 = time.time()
            for pid in todo:
                code, sigs = run_check(pid)
                if code == 1:
                    caught[pid] = sigs[:3]
                    first[pid] = run_check.first
                elif code == 2:
                    caught[pid] = ["HARNESS ERROR"]
            results[mid] = {"description": desc, "expected": expected, "ran": todo, "caught": caught, "first_failing_run_index": first, "seconds": round(time.time() - t0, 1)}
            missed = [e for e in expected if e in todo and e not in caught]
            print(mid, "caught by", sorted(caught), "MISSED:" if missed else "", missed if missed else "", f"({results[mid]['seconds']}s)")
        finally:
            sh(f"git -C {REPO} checkout -- .")
        json.dump(results, open(res_path, "w"), indent=1, sort_keys=True)
    # markdown
    with open(f"{VERIF}/mutants/RESULTS.md", "w") as f:
        f.write("# Sensitivity results (quick tier, default seed)\n\n| id | change | expected | caught by (first signature) | missed |\n|---|---|---|---|---|\n")
        for mid in sorted(results):
            r = results[mid]
            if "error" in r:
                f.write(f"| {mid} | {r['description']} | {','.join(r['expected'])} | {r['error']} | |\n")
                continue
            ff = r.get("first_failing_run_index", {})
            c = "; ".join(f"{k}: `{(v or ['?'])[0]}`" + (f" (first failing run #{ff[k]})" if ff.get(k) is not None else "") for k, v in sorted(r["caught"].items()))
            missed = [e for e in r["expected"] if e in r["ran"] and e not in r["caught"]]
            f.write(f"| {mid} | {r['description']} | {','.join(r['expected'])} | {c} | {','.join(missed)} |\n")
    sh(f"find {VERIF}/replays -name '*.json' -delete")


if __name__ == "__main__":
    main()
