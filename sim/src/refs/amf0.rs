//! Minimal independent AMF0 encoder / decoder (from the AMF0 specification), used to script
//! peers and to check the well-formedness of what sessions emit.  Shares no code with rml_amf0.

#[derive(Debug, Clone, PartialEq)]
pub enum AV {
    Num(f64),
    Bool(bool),
    Str(String),
    Obj(Vec<(String, AV)>),
    Ecma(Vec<(String, AV)>),
    Arr(Vec<AV>),
    Null,
    Undef,
}

impl AV {
    pub fn s(v: &str) -> AV {
        AV::Str(v.to_string())
    }
    pub fn get(&self, key: &str) -> Option<&AV> {
        match self {
            AV::Obj(p) | AV::Ecma(p) => p.iter().rev().find(|(k, _)| k == key).map(|(_, v)| v),
            _ => None,
        }
    }
    pub fn as_str(&self) -> Option<&str> {
        if let AV::Str(s) = self {
            Some(s)
        } else {
            None
        }
    }
    pub fn as_num(&self) -> Option<f64> {
        if let AV::Num(n) = self {
            Some(*n)
        } else {
            None
        }
    }
    pub fn is_obj(&self) -> bool {
        matches!(self, AV::Obj(_) | AV::Ecma(_))
    }
}

pub fn enc_value(out: &mut Vec<u8>, v: &AV) {
    match v {
        AV::Num(n) => {
            out.push(0);
            out.extend_from_slice(&n.to_bits().to_be_bytes());
        }
        AV::Bool(b) => {
            out.push(1);
            out.push(*b as u8);
        }
        AV::Str(s) => {
            out.push(2);
            out.extend_from_slice(&(s.len().min(65535) as u16).to_be_bytes());
            out.extend_from_slice(&s.as_bytes()[..s.len().min(65535)]);
        }
        AV::Obj(props) => {
            out.push(3);
            enc_props(out, props);
        }
        AV::Ecma(props) => {
            out.push(8);
            out.extend_from_slice(&(props.len() as u32).to_be_bytes());
            enc_props(out, props);
        }
        AV::Arr(items) => {
            out.push(10);
            out.extend_from_slice(&(items.len() as u32).to_be_bytes());
            for i in items {
                enc_value(out, i);
            }
        }
        AV::Null => out.push(5),
        AV::Undef => out.push(6),
    }
}

fn enc_props(out: &mut Vec<u8>, props: &[(String, AV)]) {
    for (k, v) in props {
        out.extend_from_slice(&(k.len().min(65535) as u16).to_be_bytes());
        out.extend_from_slice(&k.as_bytes()[..k.len().min(65535)]);
        enc_value(out, v);
    }
    out.extend_from_slice(&[0, 0, 9]);
}

pub fn enc(values: &[AV]) -> Vec<u8> {
    let mut out = Vec::new();
    for v in values {
        enc_value(&mut out, v);
    }
    out
}

struct Rd<'a> {
    b: &'a [u8],
    i: usize,
}

impl<'a> Rd<'a> {
    fn take(&mut self, n: usize) -> Result<&'a [u8], String> {
        if self.i + n > self.b.len() {
            return Err(format!("truncated at offset {} (need {} bytes)", self.i, n));
        }
        let s = &self.b[self.i..self.i + n];
        self.i += n;
        Ok(s)
    }
    fn u8(&mut self) -> Result<u8, String> {
        Ok(self.take(1)?[0])
    }
    fn u16(&mut self) -> Result<u16, String> {
        let s = self.take(2)?;
        Ok(u16::from_be_bytes([s[0], s[1]]))
    }
    fn u32(&mut self) -> Result<u32, String> {
        let s = self.take(4)?;
        Ok(u32::from_be_bytes([s[0], s[1], s[2], s[3]]))
    }
    fn string(&mut self) -> Result<String, String> {
        let n = self.u16()? as usize;
        let s = self.take(n)?;
        String::from_utf8(s.to_vec()).map_err(|_| "string is not UTF-8".to_string())
    }
    fn props(&mut self, depth: usize) -> Result<Vec<(String, AV)>, String> {
        let mut out = Vec::new();
        loop {
            let n = self.u16()? as usize;
            if n == 0 {
                let m = self.u8()?;
                if m != 9 {
                    return Err(format!("empty property name not followed by object-end (got {})", m));
                }
                return Ok(out);
            }
            let s = self.take(n)?;
            let k = String::from_utf8(s.to_vec()).map_err(|_| "name is not UTF-8".to_string())?;
            let v = self.value(depth + 1)?;
            out.push((k, v));
        }
    }
    fn value(&mut self, depth: usize) -> Result<AV, String> {
        if depth > 64 {
            return Err("nesting too deep for the reference decoder".to_string());
        }
        let m = self.u8()?;
        match m {
            0 => {
                let s = self.take(8)?;
                let mut a = [0u8; 8];
                a.copy_from_slice(s);
                Ok(AV::Num(f64::from_bits(u64::from_be_bytes(a))))
            }
            1 => Ok(AV::Bool(self.u8()? != 0)),
            2 => Ok(AV::Str(self.string()?)),
            3 => Ok(AV::Obj(self.props(depth)?)),
            5 => Ok(AV::Null),
            6 => Ok(AV::Undef),
            8 => {
                let _count = self.u32()?;
                Ok(AV::Ecma(self.props(depth)?))
            }
            10 => {
                let n = self.u32()?;
                let mut items = Vec::new();
                for _ in 0..n {
                    items.push(self.value(depth + 1)?);
                }
                Ok(AV::Arr(items))
            }
            other => Err(format!("unsupported marker {}", other)),
        }
    }
}

/// Strict decode of a whole body: every byte must be consumed.
pub fn dec(bytes: &[u8]) -> Result<Vec<AV>, String> {
    let mut r = Rd { b: bytes, i: 0 };
    let mut out = Vec::new();
    while r.i < bytes.len() {
        out.push(r.value(0)?);
    }
    Ok(out)
}
