//! Independent RTMP message bodies (RTMP 1.0 sections 5.4, 6.2, 7.1, 7.2): a strict decoder
//! used to check the well-formedness of what sessions emit, and builders used to script peers.

use crate::refs::amf0::{self, AV};
use crate::refs::chunk::RefMsg;

#[derive(Debug, Clone, PartialEq)]
pub enum Body {
    SetChunkSize(u32),
    Abort(u32),
    Ack(u32),
    UserControl { event: u16, a: u32, b: Option<u32> },
    WindowAck(u32),
    SetPeerBandwidth(u32, u8),
    Audio,
    Video,
    Data(Vec<AV>),
    Command { name: String, tx: f64, obj: AV, args: Vec<AV> },
    Other,
}

fn be32(b: &[u8]) -> u32 {
    u32::from_be_bytes([b[0], b[1], b[2], b[3]])
}

/// Strict, specification-following decode of one message body.
pub fn decode(m: &RefMsg) -> Result<Body, String> {
    let p = &m.payload;
    let need = |n: usize| -> Result<(), String> {
        if p.len() != n {
            Err(format!("type {} body has {} bytes, the specification says {}", m.type_id, p.len(), n))
        } else {
            Ok(())
        }
    };
    match m.type_id {
        1 => {
            need(4)?;
            let v = be32(p);
            if v & 0x8000_0000 != 0 || v == 0 {
                return Err(format!("SetChunkSize value {} out of range", v));
            }
            Ok(Body::SetChunkSize(v))
        }
        2 => {
            need(4)?;
            Ok(Body::Abort(be32(p)))
        }
        3 => {
            need(4)?;
            Ok(Body::Ack(be32(p)))
        }
        4 => {
            if p.len() < 2 {
                return Err("user control body shorter than its event type".into());
            }
            let event = u16::from_be_bytes([p[0], p[1]]);
            match event {
                0 | 1 | 2 | 4 | 6 | 7 | 31 | 32 => {
                    need(6)?;
                    Ok(Body::UserControl { event, a: be32(&p[2..]), b: None })
                }
                3 => {
                    need(10)?;
                    Ok(Body::UserControl { event, a: be32(&p[2..]), b: Some(be32(&p[6..])) })
                }
                other => Err(format!("unknown user control event {}", other)),
            }
        }
        5 => {
            need(4)?;
            Ok(Body::WindowAck(be32(p)))
        }
        6 => {
            need(5)?;
            if p[4] > 2 {
                return Err(format!("bandwidth limit type {}", p[4]));
            }
            Ok(Body::SetPeerBandwidth(be32(p), p[4]))
        }
        8 => Ok(Body::Audio),
        9 => Ok(Body::Video),
        18 => {
            let v = amf0::dec(p).map_err(|e| format!("data message body is not well-formed AMF0: {}", e))?;
            Ok(Body::Data(v))
        }
        20 => {
            let mut v = amf0::dec(p).map_err(|e| format!("command message body is not well-formed AMF0: {}", e))?;
            if v.len() < 3 {
                return Err(format!("command message with {} values (needs name, transaction id, command object)", v.len()));
            }
            let args = v.split_off(3);
            let obj = v.pop().unwrap();
            let tx = match v.pop().unwrap() {
                AV::Num(n) => n,
                other => return Err(format!("command transaction id is not a number: {:?}", other)),
            };
            let name = match v.pop().unwrap() {
                AV::Str(s) => s,
                other => return Err(format!("command name is not a string: {:?}", other)),
            };
            match obj {
                AV::Null | AV::Obj(_) | AV::Ecma(_) | AV::Undef => {}
                ref other => return Err(format!("command object is neither object nor null: {:?}", other)),
            }
            Ok(Body::Command { name, tx, obj, args })
        }
        _ => Ok(Body::Other),
    }
}

/// Decode with the AMF3-flag convention peers use: type 17 with a leading 0 byte is an AMF0
/// command, type 15 is AMF0 data.
pub fn decode_lenient(m: &RefMsg) -> Result<Body, String> {
    if m.type_id == 17 && m.payload.first() == Some(&0) {
        let mut n = m.clone();
        n.type_id = 20;
        n.payload.remove(0);
        return decode(&n);
    }
    if m.type_id == 15 {
        let mut n = m.clone();
        n.type_id = 18;
        return decode(&n);
    }
    decode(m)
}

// ---------------------------------------------------------------------------------------------
// builders for scripted peers

pub fn command(msid: u32, ts: u32, name: &str, tx: f64, obj: AV, args: Vec<AV>) -> RefMsg {
    let mut vals = vec![AV::s(name), AV::Num(tx), obj];
    vals.extend(args);
    RefMsg { type_id: 20, msid, ts, payload: amf0::enc(&vals) }
}

pub fn data(msid: u32, ts: u32, vals: &[AV]) -> RefMsg {
    RefMsg { type_id: 18, msid, ts, payload: amf0::enc(vals) }
}

pub fn window_ack(ts: u32, size: u32) -> RefMsg {
    RefMsg { type_id: 5, msid: 0, ts, payload: size.to_be_bytes().to_vec() }
}

pub fn set_chunk_size(ts: u32, size: u32) -> RefMsg {
    RefMsg { type_id: 1, msid: 0, ts, payload: size.to_be_bytes().to_vec() }
}

pub fn ack(ts: u32, seq: u32) -> RefMsg {
    RefMsg { type_id: 3, msid: 0, ts, payload: seq.to_be_bytes().to_vec() }
}

pub fn user_control(ts: u32, event: u16, a: u32, b: Option<u32>) -> RefMsg {
    let mut p = event.to_be_bytes().to_vec();
    p.extend_from_slice(&a.to_be_bytes());
    if let Some(b) = b {
        p.extend_from_slice(&b.to_be_bytes());
    }
    RefMsg { type_id: 4, msid: 0, ts, payload: p }
}

pub fn media(type_id: u8, msid: u32, ts: u32, payload: Vec<u8>) -> RefMsg {
    RefMsg { type_id, msid, ts, payload }
}

pub fn status_object(level: &str, code: &str, description: &str) -> AV {
    AV::Obj(vec![
        ("level".to_string(), AV::s(level)),
        ("code".to_string(), AV::s(code)),
        ("description".to_string(), AV::s(description)),
    ])
}
