pub mod amf0;
pub mod chunk;
pub mod handshake;
pub mod msg;
pub mod sha256;
