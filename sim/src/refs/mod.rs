pub mod amf0;
pub mod chunk;
