pub mod chunk;
