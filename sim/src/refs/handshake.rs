//! Independent implementation of the RTMP handshakes, from the RTMP 1.0 specification (original,
//! digest-less handshake) and the RTMPE clean-room document (Flash Player 9 digest handshake).
//! Used as a peer and as a wire verifier.  Shares no code with the library.

use crate::choice::expand_bytes;
use crate::refs::sha256::hmac_sha256;

pub const PKT: usize = 1536;

pub const FP_KEY: &[u8] = b"Genuine Adobe Flash Player 001";
pub const FMS_KEY: &[u8] = b"Genuine Adobe Flash Media Server 001";
pub const CRUD: [u8; 32] = [
    0xF0, 0xEE, 0xC2, 0x4A, 0x80, 0x68, 0xBE, 0xE8, 0x2E, 0x00, 0xD0, 0xD1, 0x02, 0x9E, 0x7E, 0x57, 0x6E, 0xEC,
    0x5D, 0x2D, 0x29, 0x80, 0x6F, 0xAB, 0x93, 0xB8, 0xE6, 0x36, 0xCF, 0xEB, 0x31, 0xAE,
];

#[derive(Clone, Copy, PartialEq, Eq, Debug)]
pub enum Role {
    Client,
    Server,
}

#[derive(Clone, Copy, PartialEq, Eq, Debug)]
pub enum Scheme {
    /// selector bytes 8..11, digest at 12 + sum % 728
    ClientPos,
    /// selector bytes 772..775, digest at 776 + sum % 728
    ServerPos,
}

impl Role {
    pub fn p1_key(self) -> &'static [u8] {
        match self {
            Role::Client => FP_KEY,
            Role::Server => FMS_KEY,
        }
    }
    pub fn full_key(self) -> Vec<u8> {
        let mut k = self.p1_key().to_vec();
        k.extend_from_slice(&CRUD);
        k
    }
    pub fn native_scheme(self) -> Scheme {
        match self {
            Role::Client => Scheme::ClientPos,
            Role::Server => Scheme::ServerPos,
        }
    }
    pub fn other(self) -> Role {
        match self {
            Role::Client => Role::Server,
            Role::Server => Role::Client,
        }
    }
}

impl Scheme {
    pub fn selector(self) -> usize {
        match self {
            Scheme::ClientPos => 8,
            Scheme::ServerPos => 772,
        }
    }
    pub fn base(self) -> usize {
        self.selector() + 4
    }
}

pub fn digest_pos(p1: &[u8], scheme: Scheme) -> usize {
    let s = scheme.selector();
    let sum = p1[s] as usize + p1[s + 1] as usize + p1[s + 2] as usize + p1[s + 3] as usize;
    scheme.base() + sum % 728
}

/// Set the four selector bytes so that their sum is `offset` (+728 when `high` and it fits).
pub fn steer(p: &mut [u8], selector: usize, offset: usize, high: bool) {
    let mut sum = offset % 728;
    if high && sum + 728 <= 1020 {
        sum += 728;
    }
    for i in 0..4 {
        let v = sum.min(255);
        p[selector + i] = v as u8;
        sum -= v;
    }
}

fn digest_of(p1: &[u8], pos: usize, key: &[u8]) -> [u8; 32] {
    let mut joined = Vec::with_capacity(PKT - 32);
    joined.extend_from_slice(&p1[..pos]);
    joined.extend_from_slice(&p1[pos + 32..]);
    hmac_sha256(key, &joined)
}

/// A digest-bearing packet 1 for `role`, using `scheme` with digest offset `offset`.
pub fn make_p1(role: Role, scheme: Scheme, offset: usize, high: bool, fill_seed: u64) -> Vec<u8> {
    make_p1_with_header(role, scheme, offset, high, fill_seed, 0)
}

/// `header` selects the 8 leading bytes (time, version), which carry no meaning for the digest:
/// 0 = time 0 + a typical version for the role, 1 = all zero, 2 = random time + zero version,
/// 3 = random time and version.
pub fn make_p1_with_header(role: Role, scheme: Scheme, offset: usize, high: bool, fill_seed: u64, header: u64) -> Vec<u8> {
    make_p1_full(role, scheme, offset, high, fill_seed, header, 0)
}

/// `fill` selects the "random" content: 0 = pseudo-random, 1 = all zero, 2 = all 0xFF,
/// 3 = counting pattern (every filling is legal: the bytes carry no meaning).
pub fn make_p1_full(role: Role, scheme: Scheme, offset: usize, high: bool, fill_seed: u64, header: u64, fill: u64) -> Vec<u8> {
    let mut p = match fill {
        1 => vec![0u8; PKT],
        2 => vec![0xFFu8; PKT],
        3 => expand_bytes(0, PKT),
        _ => expand_bytes(fill_seed ^ 0x51, PKT),
    };
    match header {
        0 => {
            p[0..4].copy_from_slice(&[0, 0, 0, 0]);
            match role {
                Role::Client => p[4..8].copy_from_slice(&[10, 0, 45, 2]),
                Role::Server => p[4..8].copy_from_slice(&[4, 5, 0, 1]),
            }
        }
        1 => p[0..8].copy_from_slice(&[0; 8]),
        2 => p[4..8].copy_from_slice(&[0; 4]),
        _ => {}
    }
    steer(&mut p, scheme.selector(), offset, high);
    let pos = digest_pos(&p, scheme);
    let d = digest_of(&p, pos, role.p1_key());
    p[pos..pos + 32].copy_from_slice(&d);
    p
}

/// A digest-bearing packet 1 for `role` whose filling is `base` (e.g. bytes the peer received
/// earlier and reuses): only the selector bytes of `scheme` and the digest are written.
pub fn make_p1_from(base: &[u8], role: Role, scheme: Scheme, offset: usize, high: bool) -> Vec<u8> {
    let mut p = base[..PKT].to_vec();
    steer(&mut p, scheme.selector(), offset, high);
    let pos = digest_pos(&p, scheme);
    let d = digest_of(&p, pos, role.p1_key());
    p[pos..pos + 32].copy_from_slice(&d);
    p
}

/// A packet 1 of the original handshake: time, four zero bytes, random (no digest).
pub fn make_plain_p1(fill_seed: u64, zero_version: bool) -> Vec<u8> {
    let mut p = expand_bytes(fill_seed ^ 0x77, PKT);
    p[0..4].copy_from_slice(&[0, 0, 0x12, 0x34]);
    if zero_version {
        p[4..8].copy_from_slice(&[0, 0, 0, 0]);
    }
    p
}

/// Which scheme (if any) carries a valid digest for a packet 1 sent by `role`.
pub fn verify_p1(p1: &[u8], role: Role) -> Option<(Scheme, usize, [u8; 32])> {
    if p1.len() != PKT {
        return None;
    }
    for scheme in [Scheme::ClientPos, Scheme::ServerPos] {
        let pos = digest_pos(p1, scheme);
        let d = digest_of(p1, pos, role.p1_key());
        if d[..] == p1[pos..pos + 32] {
            return Some((scheme, pos - scheme.base(), d));
        }
    }
    None
}

/// The signature a packet 2 sent by `role` must end with, answering a packet 1 whose digest is
/// `peer_digest`.
pub fn p2_signature(role: Role, peer_digest: &[u8; 32], p2_first_1504: &[u8]) -> [u8; 32] {
    let k = hmac_sha256(&role.full_key(), peer_digest);
    hmac_sha256(&k, p2_first_1504)
}

/// Packet 2 as a conformant fp9 peer of `role` would send it in answer to `peer_p1`
/// (echo when the peer's packet 1 carries no digest).
pub fn make_p2(role: Role, peer_p1: &[u8], fill_seed: u64) -> Vec<u8> {
    match verify_p1(peer_p1, role.other()) {
        Some((_, _, d)) => {
            let mut p = expand_bytes(fill_seed ^ 0x99, PKT);
            let sig = p2_signature(role, &d, &p[..PKT - 32]);
            p[PKT - 32..].copy_from_slice(&sig);
            p
        }
        None => peer_p1.to_vec(),
    }
}

#[derive(Clone, Copy, PartialEq, Eq, Debug)]
pub enum PeerKind {
    /// original RTMP 1.0 handshake: no digests, packet 2 echoes the peer's packet 1
    Original,
    /// Flash Player 9 digest handshake
    Fp9 { scheme: Scheme, offset: usize, high: bool },
}

/// A scripted handshake peer (byte-accumulating state machine).
pub struct RefPeer {
    pub role: Role,
    pub kind: PeerKind,
    pub fill_seed: u64,
    pub my_p1: Vec<u8>,
    pub sent_p0p1: bool,
    pub sent_p2: bool,
    pub inbuf: Vec<u8>,
    pub got_p1: Option<Vec<u8>>,
    pub got_p2: Option<Vec<u8>>,
    pub bad_version: bool,
    /// Original handshake only: what the peer writes into bytes 4..8 ("time2": when it read the
    /// previous packet, RTMP 1.0 section 5.2.4) of its packet 2 -- None = verbatim echo
    pub time2: Option<[u8; 4]>,
}

impl RefPeer {
    pub fn new(role: Role, kind: PeerKind, fill_seed: u64) -> RefPeer {
        let my_p1 = match kind {
            // "original (digest-less)": RTMP 1.0 wants four zero bytes after the time field, but
            // deployed digest-less peers put anything there -- both occur
            PeerKind::Original => make_plain_p1(fill_seed, (fill_seed >> 9) & 1 == 0),
            PeerKind::Fp9 { scheme, offset, high } => make_p1(role, scheme, offset, high, fill_seed),
        };
        RefPeer {
            role,
            kind,
            fill_seed,
            my_p1,
            sent_p0p1: false,
            sent_p2: false,
            inbuf: Vec::new(),
            got_p1: None,
            got_p2: None,
            bad_version: false,
            time2: None,
        }
    }

    pub fn start(&mut self) -> Vec<u8> {
        if self.sent_p0p1 {
            return Vec::new();
        }
        self.sent_p0p1 = true;
        let mut out = vec![3u8];
        out.extend_from_slice(&self.my_p1);
        out
    }

    pub fn complete(&self) -> bool {
        self.got_p2.is_some() && self.sent_p2
    }

    /// Feed bytes; returns (bytes to send, bytes that arrived after the handshake).
    pub fn feed(&mut self, data: &[u8]) -> (Vec<u8>, Vec<u8>) {
        let mut out = Vec::new();
        if self.got_p2.is_some() {
            return (out, data.to_vec());
        }
        self.inbuf.extend_from_slice(data);
        if !self.sent_p0p1 && !self.inbuf.is_empty() {
            out.extend(self.start());
        }
        if self.got_p1.is_none() && self.inbuf.len() >= 1 + PKT {
            if self.inbuf[0] != 3 {
                self.bad_version = true;
            }
            let p1 = self.inbuf[1..1 + PKT].to_vec();
            let p2 = match self.kind {
                PeerKind::Original => {
                    let mut e = p1.clone();
                    if let Some(t2) = self.time2 {
                        e[4..8].copy_from_slice(&t2);
                    }
                    e
                }
                PeerKind::Fp9 { .. } => make_p2(self.role, &p1, self.fill_seed),
            };
            out.extend_from_slice(&p2);
            self.sent_p2 = true;
            self.got_p1 = Some(p1);
        }
        let mut after = Vec::new();
        if self.got_p1.is_some() && self.got_p2.is_none() && self.inbuf.len() >= 1 + 2 * PKT {
            self.got_p2 = Some(self.inbuf[1 + PKT..1 + 2 * PKT].to_vec());
            after = self.inbuf[1 + 2 * PKT..].to_vec();
            self.inbuf.clear();
        }
        (out, after)
    }
}
