//! Independent reference implementation of the RTMP chunk stream (RTMP 1.0 section 5.3.1):
//! a strict decoder used as wire tap / oracle and an encoder with free choices used as a
//! foreign peer.  Shares no code with the library.

use std::collections::BTreeMap;

#[derive(Debug, Clone, PartialEq, Eq)]
pub struct RefMsg {
    pub type_id: u8,
    pub msid: u32,
    pub ts: u32,
    pub payload: Vec<u8>,
}

impl RefMsg {
    pub fn brief(&self) -> String {
        format!(
            "type={} msid={} ts={} len={}",
            self.type_id,
            self.msid,
            self.ts,
            self.payload.len()
        )
    }
}

#[derive(Debug, Clone)]
pub struct ChunkRec {
    pub off: u64,
    pub fmt: u8,
    pub csid: u32,
    pub hdr_len: u32,
    pub ext: bool,
    pub payload_len: u32,
    pub first: bool,
    pub completes: bool,
}

#[derive(Debug, Clone)]
pub struct DecodeErr {
    pub class: &'static str,
    pub detail: String,
    pub offset: u64,
}

#[derive(Clone)]
struct CsState {
    abs: u32,
    field: u32,
    len: u32,
    type_id: u8,
    msid: u32,
    had_ext: bool,
    in_progress: Option<Vec<u8>>,
}

pub struct RefChunkDecoder {
    pub chunk_size: u32,
    pub strict: bool,
    pub record_chunks: bool,
    pub chunks: Vec<ChunkRec>,
    per: BTreeMap<u32, CsState>,
    buf: Vec<u8>,
    base: u64,
    /// ext value on a continuation chunk differed from the message's (tolerated; counted)
    pub cont_ext_mismatch: u64,
    pub lenient_fmt0_cont: u64,
    pub apply_chunk_size: bool,
    /// absolute stream offset just past each message returned by the last `feed`
    pub last_ends: Vec<u64>,
    /// csid of each message returned by the last `feed`
    pub last_csids: Vec<u32>,
}

const MAX24: u32 = 0xFF_FFFF;

impl RefChunkDecoder {
    pub fn new(strict: bool) -> RefChunkDecoder {
        RefChunkDecoder {
            chunk_size: 128,
            strict,
            record_chunks: false,
            chunks: Vec::new(),
            per: BTreeMap::new(),
            buf: Vec::new(),
            base: 0,
            cont_ext_mismatch: 0,
            lenient_fmt0_cont: 0,
            apply_chunk_size: true,
            last_ends: Vec::new(),
            last_csids: Vec::new(),
        }
    }

    pub fn pending_bytes(&self) -> usize {
        self.buf.len()
    }

    pub fn messages_in_progress(&self) -> usize {
        self.per.values().filter(|s| s.in_progress.is_some()).count()
    }

    /// Feed more wire bytes; returns the messages completed by them.
    pub fn feed(&mut self, data: &[u8]) -> Result<Vec<RefMsg>, DecodeErr> {
        self.buf.extend_from_slice(data);
        self.last_ends.clear();
        self.last_csids.clear();
        let mut out = Vec::new();
        let mut cur = 0usize;
        loop {
            match self.one_chunk(cur, &mut out)? {
                Some(next) => cur = next,
                None => break,
            }
        }
        if cur > 0 {
            self.buf.drain(..cur);
            self.base += cur as u64;
        }
        Ok(out)
    }

    /// At the end of a complete transcript nothing may be left over.
    pub fn finish(&self) -> Result<(), DecodeErr> {
        if !self.buf.is_empty() {
            return Err(DecodeErr {
                class: "trailing-partial-chunk",
                detail: format!("{} bytes left that do not form a chunk", self.buf.len()),
                offset: self.base,
            });
        }
        for (csid, s) in self.per.iter() {
            if let Some(ref p) = s.in_progress {
                return Err(DecodeErr {
                    class: "message-incomplete",
                    detail: format!(
                        "csid {} has a message in progress ({} of {} bytes)",
                        csid,
                        p.len(),
                        s.len
                    ),
                    offset: self.base,
                });
            }
        }
        Ok(())
    }

    fn err(&self, class: &'static str, at: usize, detail: String) -> DecodeErr {
        DecodeErr {
            class,
            detail,
            offset: self.base + at as u64,
        }
    }

    /// Try to decode one chunk starting at `cur`; Ok(None) when more bytes are needed.
    fn one_chunk(&mut self, cur: usize, out: &mut Vec<RefMsg>) -> Result<Option<usize>, DecodeErr> {
        let b = &self.buf;
        let avail = b.len() - cur;
        if avail < 1 {
            return Ok(None);
        }
        let b0 = b[cur];
        let fmt = b0 >> 6;
        let low = (b0 & 63) as u32;
        let (csid, basic_len) = match low {
            0 => {
                if avail < 2 {
                    return Ok(None);
                }
                (b[cur + 1] as u32 + 64, 2usize)
            }
            1 => {
                if avail < 3 {
                    return Ok(None);
                }
                let c = b[cur + 2] as u32 * 256 + b[cur + 1] as u32 + 64;
                if self.strict && c < 320 {
                    return Err(self.err(
                        "csid-not-minimal",
                        cur,
                        format!("csid {} encoded in the 3-byte form", c),
                    ));
                }
                (c, 3usize)
            }
            x => (x, 1usize),
        };
        let mh_len = match fmt {
            0 => 11,
            1 => 7,
            2 => 3,
            _ => 0,
        };
        if avail < basic_len + mh_len {
            return Ok(None);
        }
        let mh = &b[cur + basic_len..cur + basic_len + mh_len];
        let prev = self.per.get(&csid);
        if fmt != 0 && prev.is_none() {
            return Err(self.err(
                "no-predecessor",
                cur,
                format!("format {} chunk on csid {} with no preceding chunk", fmt, csid),
            ));
        }
        let be24 = |s: &[u8]| (s[0] as u32) << 16 | (s[1] as u32) << 8 | s[2] as u32;
        let field24 = if fmt <= 2 { be24(&mh[0..3]) } else { 0 };
        let has_ext = if fmt <= 2 {
            field24 == MAX24
        } else {
            prev.map(|p| p.had_ext).unwrap_or(false)
        };
        let ext_len = if has_ext { 4 } else { 0 };
        let hdr_len = basic_len + mh_len + ext_len;
        if avail < hdr_len {
            return Ok(None);
        }
        let ext_val = if has_ext {
            let e = &b[cur + basic_len + mh_len..cur + hdr_len];
            Some((e[0] as u32) << 24 | (e[1] as u32) << 16 | (e[2] as u32) << 8 | e[3] as u32)
        } else {
            None
        };
        if fmt <= 2 {
            if let Some(e) = ext_val {
                if self.strict && e < MAX24 {
                    return Err(self.err(
                        "ext-below-threshold",
                        cur,
                        format!("extended timestamp {} below 0xFFFFFF on format {}", e, fmt),
                    ));
                }
            }
        }
        let field = ext_val.filter(|_| fmt <= 2).unwrap_or(field24);

        let in_progress = prev.map(|p| p.in_progress.is_some()).unwrap_or(false);

        // Resolve header fields for this chunk
        let (abs, new_field, len, type_id, msid, had_ext, is_first);
        match fmt {
            0 => {
                let l = be24(&mh[3..6]);
                let t = mh[6];
                let m = u32::from_le_bytes([mh[7], mh[8], mh[9], mh[10]]);
                if in_progress {
                    let p = prev.unwrap();
                    if p.abs == field && p.len == l && p.type_id == t && p.msid == m {
                        // documented leniency: full header repeated on a continuation chunk
                        self.lenient_fmt0_cont += 1;
                        abs = p.abs;
                        new_field = p.field;
                        len = l;
                        type_id = t;
                        msid = m;
                        had_ext = has_ext;
                        is_first = false;
                    } else {
                        return Err(self.err(
                            "header-mid-message",
                            cur,
                            format!(
                                "format 0 header with different fields on csid {} while a message is in progress",
                                csid
                            ),
                        ));
                    }
                } else {
                    abs = field;
                    new_field = field;
                    len = l;
                    type_id = t;
                    msid = m;
                    had_ext = has_ext;
                    is_first = true;
                }
            }
            1 | 2 => {
                let p = prev.unwrap();
                if in_progress {
                    return Err(self.err(
                        "header-mid-message",
                        cur,
                        format!(
                            "format {} header on csid {} while a message is in progress",
                            fmt, csid
                        ),
                    ));
                }
                abs = p.abs.wrapping_add(field);
                new_field = field;
                if fmt == 1 {
                    len = be24(&mh[3..6]);
                    type_id = mh[6];
                } else {
                    len = p.len;
                    type_id = p.type_id;
                }
                msid = p.msid;
                had_ext = has_ext;
                is_first = true;
            }
            _ => {
                let p = prev.unwrap();
                len = p.len;
                type_id = p.type_id;
                msid = p.msid;
                had_ext = p.had_ext;
                new_field = p.field;
                if in_progress {
                    abs = p.abs;
                    is_first = false;
                    if let Some(e) = ext_val {
                        if e != p.field && e != p.abs {
                            self.cont_ext_mismatch += 1;
                        }
                    }
                } else {
                    if let Some(e) = ext_val {
                        if self.strict && e != p.field {
                            return Err(self.err(
                                "fmt3-ext-mismatch",
                                cur,
                                format!(
                                    "format 3 chunk starting a message on csid {} carries extended timestamp {} but the inherited delta is {}",
                                    csid, e, p.field
                                ),
                            ));
                        }
                    }
                    abs = p.abs.wrapping_add(p.field);
                    is_first = true;
                }
            }
        }

        let received = if is_first {
            0usize
        } else {
            prev.and_then(|p| p.in_progress.as_ref().map(|v| v.len()))
                .unwrap_or(0)
        };
        let remaining = (len as usize).saturating_sub(received);
        let payload_len = remaining.min(self.chunk_size as usize);
        if avail < hdr_len + payload_len {
            return Ok(None);
        }
        let payload = &b[cur + hdr_len..cur + hdr_len + payload_len];

        let mut data = if is_first {
            Vec::with_capacity((len as usize).min(1 << 20))
        } else {
            self.per
                .get_mut(&csid)
                .and_then(|p| p.in_progress.take())
                .unwrap_or_default()
        };
        data.extend_from_slice(payload);
        let complete = data.len() >= len as usize;

        if self.record_chunks {
            self.chunks.push(ChunkRec {
                off: self.base + cur as u64,
                fmt,
                csid,
                hdr_len: hdr_len as u32,
                ext: has_ext,
                payload_len: payload_len as u32,
                first: is_first,
                completes: complete,
            });
        }

        let mut st = CsState {
            abs,
            field: new_field,
            len,
            type_id,
            msid,
            had_ext,
            in_progress: None,
        };
        if complete {
            if type_id == 1 && data.len() >= 4 && self.apply_chunk_size {
                let v = u32::from_be_bytes([data[0], data[1], data[2], data[3]]) & 0x7FFF_FFFF;
                if v == 0 {
                    if self.strict {
                        return Err(self.err(
                            "chunk-size-zero",
                            cur,
                            "SetChunkSize announces 0".to_string(),
                        ));
                    }
                } else {
                    self.chunk_size = v;
                }
            }
            out.push(RefMsg {
                type_id,
                msid,
                ts: abs,
                payload: data,
            });
            self.last_ends.push(self.base + (cur + hdr_len + payload_len) as u64);
            self.last_csids.push(csid);
        } else {
            st.in_progress = Some(data);
        }
        self.per.insert(csid, st);
        Ok(Some(cur + hdr_len + payload_len))
    }
}

// ---------------------------------------------------------------------------------------------
// encoder

#[derive(Clone)]
struct EncState {
    abs: u32,
    field: u32,
    len: u32,
    type_id: u8,
    msid: u32,
    had_ext: bool,
}

pub struct RefChunkEncoder {
    pub chunk_size: u32,
    per: BTreeMap<u32, EncState>,
}

/// A message being sent on one chunk stream.
pub struct EncCursor {
    pub csid: u32,
    pub msg: RefMsg,
    pub sent: usize,
    pub started: bool,
}

impl EncCursor {
    pub fn done(&self) -> bool {
        self.started && self.sent >= self.msg.payload.len()
    }
}

impl RefChunkEncoder {
    pub fn new() -> RefChunkEncoder {
        RefChunkEncoder {
            chunk_size: 128,
            per: BTreeMap::new(),
        }
    }

    pub fn has_state(&self, csid: u32) -> bool {
        self.per.contains_key(&csid)
    }

    pub fn used_csids(&self) -> Vec<u32> {
        self.per.keys().copied().collect()
    }

    pub fn had_ext(&self, csid: u32) -> bool {
        self.per.get(&csid).map(|p| p.had_ext).unwrap_or(false)
    }

    /// (absolute timestamp, delta/field, length, type id, message stream id) of the last header on `csid`
    pub fn prev(&self, csid: u32) -> Option<(u32, u32, u32, u8, u32)> {
        self.per.get(&csid).map(|p| (p.abs, p.field, p.len, p.type_id, p.msid))
    }

    /// Which header formats are legal for starting `msg` on `csid` (index = format).
    pub fn legal_formats(&self, csid: u32, msg: &RefMsg) -> [bool; 4] {
        let mut ok = [true, false, false, false];
        if let Some(p) = self.per.get(&csid) {
            if p.msid == msg.msid {
                ok[1] = true;
                if p.len as usize == msg.payload.len() && p.type_id == msg.type_id {
                    ok[2] = true;
                    if msg.ts.wrapping_sub(p.abs) == p.field {
                        ok[3] = true;
                    }
                }
            }
        }
        ok
    }

    fn basic_header(out: &mut Vec<u8>, fmt: u8, csid: u32) {
        if csid <= 63 {
            out.push(fmt << 6 | csid as u8);
        } else if csid <= 319 {
            out.push(fmt << 6);
            out.push((csid - 64) as u8);
        } else {
            out.push(fmt << 6 | 1);
            let v = csid - 64;
            out.push((v & 0xFF) as u8);
            out.push((v >> 8) as u8);
        }
    }

    fn be24(out: &mut Vec<u8>, v: u32) {
        out.push((v >> 16) as u8);
        out.push((v >> 8) as u8);
        out.push(v as u8);
    }

    /// Emit the first chunk of the cursor's message using header format `fmt` (must be legal).
    pub fn start(&mut self, out: &mut Vec<u8>, cur: &mut EncCursor, fmt: u8) {
        let msg = &cur.msg;
        let len = msg.payload.len() as u32;
        let prev = self.per.get(&cur.csid).cloned();
        Self::basic_header(out, fmt, cur.csid);
        let (field, had_ext) = match fmt {
            0 => {
                let f = msg.ts;
                Self::be24(out, f.min(MAX24));
                Self::be24(out, len);
                out.push(msg.type_id);
                out.extend_from_slice(&msg.msid.to_le_bytes());
                (f, f >= MAX24)
            }
            1 => {
                let f = msg.ts.wrapping_sub(prev.as_ref().unwrap().abs);
                Self::be24(out, f.min(MAX24));
                Self::be24(out, len);
                out.push(msg.type_id);
                (f, f >= MAX24)
            }
            2 => {
                let f = msg.ts.wrapping_sub(prev.as_ref().unwrap().abs);
                Self::be24(out, f.min(MAX24));
                (f, f >= MAX24)
            }
            _ => {
                let p = prev.as_ref().unwrap();
                (p.field, p.had_ext)
            }
        };
        if had_ext {
            out.extend_from_slice(&field.to_be_bytes());
        }
        let n = msg.payload.len().min(self.chunk_size as usize);
        out.extend_from_slice(&msg.payload[..n]);
        self.per.insert(
            cur.csid,
            EncState {
                abs: msg.ts,
                field,
                len,
                type_id: msg.type_id,
                msid: msg.msid,
                had_ext,
            },
        );
        cur.sent = n;
        cur.started = true;
    }

    /// Emit the next continuation chunk (format 3, extended timestamp repeated when the message's
    /// header had one).
    pub fn cont(&mut self, out: &mut Vec<u8>, cur: &mut EncCursor) {
        let st = self.per.get(&cur.csid).cloned().unwrap();
        Self::basic_header(out, 3, cur.csid);
        if st.had_ext {
            out.extend_from_slice(&st.field.to_be_bytes());
        }
        let remaining = cur.msg.payload.len() - cur.sent;
        let n = remaining.min(self.chunk_size as usize);
        out.extend_from_slice(&cur.msg.payload[cur.sent..cur.sent + n]);
        cur.sent += n;
    }

    /// Convenience: encode a whole message sequentially.
    pub fn encode_message(&mut self, out: &mut Vec<u8>, csid: u32, msg: &RefMsg, fmt: u8) {
        let mut cur = EncCursor {
            csid,
            msg: msg.clone(),
            sent: 0,
            started: false,
        };
        self.start(out, &mut cur, fmt);
        while !cur.done() {
            self.cont(out, &mut cur);
        }
    }

    /// Compressed-most legal format (what a typical sender does).
    pub fn best_format(&self, csid: u32, msg: &RefMsg) -> u8 {
        let l = self.legal_formats(csid, msg);
        if l[3] {
            3
        } else if l[2] {
            2
        } else if l[1] {
            1
        } else {
            0
        }
    }
}
