//! World A -- codec link: real `ChunkSerializer` -> link -> real `ChunkDeserializer`
//! (driver honours decoded SetChunkSize), with the strict reference decoder tapping the wire.
//! Serves C01 (round trip under any segmentation), C07 (wire conformance), C08 (drop faults)
//! and the codec half of C19 (configuration swarm).

use crate::choice::expand_bytes;
use crate::engine::{fnv_new, fnv_u64, Ctx, NodeMem, RunResult, Violation};
use crate::link::{Link, SegMode};
use crate::refs::chunk::{RefChunkDecoder, RefMsg};
use bytes::Bytes;
use rml_rtmp::chunk_io::{ChunkDeserializer, ChunkSerializer, Packet};
use rml_rtmp::messages::MessagePayload;
use rml_rtmp::time::RtmpTimestamp;

#[derive(Clone, Copy, PartialEq, Eq, Debug)]
pub enum AMode {
    C01,
    C07,
    C08,
    C19,
}

pub struct SentPacket {
    pub bytes: Vec<u8>,
    pub droppable: bool,
    /// index into `accepted`
    pub msg: usize,
    pub csid_class: u8,
}

pub struct Script {
    pub accepted: Vec<RefMsg>,
    pub packets: Vec<SentPacket>,
    pub refused: u64,
}

fn csid_for_type(t: u8) -> u8 {
    match t {
        1..=6 => 2,
        18 | 19 => 3,
        9 => 4,
        8 => 5,
        _ => 6,
    }
}

pub struct Knobs {
    pub type_mode: u64,
    pub msid_mode: u64,
    pub ts_mode: u64,
    pub len_mode: u64,
    pub force_den: u64,
    pub drop_num: u64,
    pub setchunk_w: u32,
    pub edge_cfg: bool,
    pub allow_huge: bool,
}

impl Knobs {
    pub fn draw(ctx: &mut Ctx, mode: AMode) -> Knobs {
        let type_mode = ctx.ch.weighted("cfg.types", &[3, 3, 3, 2]) as u64;
        let msid_mode = ctx.ch.weighted("cfg.msid", &[3, 3, 1]) as u64;
        let ts_mode = ctx.ch.weighted("cfg.ts", &[2, 3, 2, 3, 2, 2, 2, 4]) as u64;
        let len_mode = ctx.ch.weighted("cfg.len", &[3, 3, 2, 2]) as u64;
        let force_den = [0u64, 8, 2][ctx.ch.weighted("cfg.force", &[3, 2, 1])];
        let drop_num = if mode == AMode::C08 {
            [2u64, 3, 4][ctx.ch.weighted("cfg.dropflag", &[2, 2, 1])]
        } else {
            [0u64, 1, 2][ctx.ch.weighted("cfg.dropflag", &[2, 2, 1])]
        };
        let setchunk_w = [0u32, 1, 3][ctx.ch.weighted("cfg.setchunk", &[2, 3, 2])];
        Knobs {
            type_mode,
            msid_mode,
            ts_mode,
            len_mode,
            force_den,
            drop_num,
            setchunk_w,
            edge_cfg: mode == AMode::C19,
            allow_huge: true,
        }
    }
}

fn draw_chunk_size(ctx: &mut Ctx, edge: bool) -> u32 {
    if edge {
        // C19: edge-biased over the full u32 range, including values the protocol cannot express
        let k = ctx.ch.weighted("op.arg.csz", &[3, 3, 2, 2, 2, 2, 2, 2, 2, 2, 2, 2, 3]);
        return match k {
            0 => 128,
            1 => 0,
            2 => 1,
            3 => 2,
            4 => 127,
            5 => 129,
            6 => 4096,
            7 => 0x7FFF_FFFE,
            8 => 0x7FFF_FFFF,
            9 => 0x8000_0000,
            10 => 0xFFFF_FFFF,
            11 => ctx.ch.range("op.arg.cszv", 1, 300) as u32,
            _ => ctx.ch.draw("op.arg.cszv", 1 << 32) as u32,
        };
    }
    let k = ctx.ch.weighted("op.arg.csz", &[3, 3, 2, 2, 2, 2, 2, 3, 2, 1, 2, 2, 1]);
    match k {
        0 => 128,
        1 => 1,
        2 => 2,
        3 => 3,
        4 => 4,
        5 => 127,
        6 => 129,
        7 => ctx.ch.range("op.arg.cszv", 1, 300) as u32,
        8 => 4096,
        9 => 65536,
        10 => 0x7FFF_FFFF,
        11 => *ctx.ch.pick("op.arg.cszv", &[255u32, 256, 257, 65535, 65537, 16_777_215, 16_777_216, 0x7FFF_FFFE, 5, 64]),
        _ => ctx.ch.range("op.arg.cszv", 1, 0x7FFF_FFFF) as u32,
    }
}

fn draw_type(ctx: &mut Ctx, k: &Knobs) -> u8 {
    match k.type_mode {
        0 => 9,
        1 => *ctx.ch.pick("op.arg.type", &[9u8, 8]),
        // includes every pair of type ids that share one of the library's chunk streams
        // (1-6 -> 2, 18/19 -> 3, everything else but 8/9 -> 6)
        2 => *ctx.ch.pick("op.arg.type", &[9u8, 8, 18, 19, 20, 17, 15, 22, 4, 3, 2, 5, 6]),
        _ => ctx.ch.draw("op.arg.type", 256) as u8,
    }
}

fn draw_msid(ctx: &mut Ctx, k: &Knobs) -> u32 {
    match k.msid_mode {
        0 => 1,
        1 => *ctx.ch.pick("op.arg.msid", &[1u32, 0, 2]),
        _ => match ctx.ch.weighted("op.arg.msid", &[2, 1, 1, 3]) {
            0 => 1,
            1 => 0xFFFF_FFFF,
            2 => 0x0100_0000,
            _ => ctx.ch.draw("op.arg.msidv", 1 << 32) as u32,
        },
    }
}

/// Timestamp process.  `prev` = previous timestamp on the same csid class (what compression is
/// relative to), `prev_delta` = the previous delta there.
fn draw_ts(ctx: &mut Ctx, k: &Knobs, prev: u32, prev_delta: u32) -> u32 {
    let kind = match k.ts_mode {
        0 => 0,                                                   // constant
        1 => 1,                                                   // rising small
        2 => 2,                                                   // falling
        3 => 3,                                                   // threshold jumps
        4 => 4,                                                   // delta == previous absolute
        5 => 5,                                                   // near wrap
        6 => 6,                                                   // uniform
        _ => ctx.ch.weighted("ts.kind", &[2, 3, 2, 3, 2, 2, 1, 2]) as u64, // mixed (+ same delta)
    };
    match kind {
        0 => prev,
        1 => prev.wrapping_add(ctx.ch.draw("ts.step", 100) as u32),
        2 => prev.wrapping_sub(ctx.ch.draw("ts.step", 100) as u32),
        3 => {
            let j = *ctx.ch.pick(
                "ts.step",
                &[0u32, 0xFF_FFFE, 0xFF_FFFF, 0x100_0000, 0x100_0001, 0xFF_FFFD],
            );
            if ctx.ch.chance("ts.abs", 1, 3) {
                j
            } else {
                prev.wrapping_add(j)
            }
        }
        4 => prev.wrapping_add(prev),
        5 => {
            if prev < 0xFFFF_FF00 && prev > 0x100 {
                0xFFFF_FFF0u32.wrapping_add(ctx.ch.draw("ts.step", 32) as u32)
            } else {
                prev.wrapping_add(ctx.ch.draw("ts.step", 64) as u32)
            }
        }
        6 => ctx.ch.draw("ts.step", 1 << 32) as u32,
        _ => prev.wrapping_add(prev_delta),
    }
}

fn draw_len(ctx: &mut Ctx, k: &Knobs, chunk: u32) -> usize {
    let c = chunk.max(1) as u64;
    let class = match k.len_mode {
        0 => ctx.ch.weighted("op.arg.lenk", &[4, 3, 4, 1, 0, 0]),
        1 => ctx.ch.weighted("op.arg.lenk", &[3, 1, 2, 4, 1, 0]),
        2 => ctx.ch.weighted("op.arg.lenk", &[3, 1, 1, 2, 4, 0]),
        _ => ctx.ch.weighted("op.arg.lenk", &[4, 2, 2, 3, 2, 1]),
    };
    let len = match class {
        0 => ctx.ch.range("op.arg.len", 1, 40),
        1 => 0,
        2 => ctx.ch.range("op.arg.len", 1, 3),
        3 => {
            // around k*c
            let kk = ctx.ch.range("op.arg.lenm", 1, 3);
            let d = ctx.ch.draw("op.arg.lend", 3);
            let base = kk.saturating_mul(c);
            if base > 70_000 {
                ctx.ch.range("op.arg.len", 1, 300)
            } else {
                (base + d).saturating_sub(1)
            }
        }
        4 => ctx.ch.range("op.arg.len", 41, 70_000),
        _ => {
            if k.allow_huge && ctx.ch.chance("op.arg.huge", 1, 40) {
                *ctx.ch
                    .pick("op.arg.len", &[16_777_215u64, 16_777_214, 1_000_000])
            } else {
                ctx.ch.range("op.arg.len", 41, 70_000)
            }
        }
    };
    // bound the chunk count per message (documented exploration bound)
    let max_len = c.saturating_mul(70_000).min(16_777_215);
    len.min(max_len) as usize
}

pub struct Sender {
    pub ser: ChunkSerializer,
    pub chunk: u32,
    pub script: Script,
    /// per csid class: (last ts, last delta)
    last: [(u32, u32); 7],
    /// per csid class: length of the previous message
    last_len: [Option<usize>; 7],
    last_type: [Option<u8>; 7],
}

impl Sender {
    pub fn new() -> Sender {
        Sender {
            ser: ChunkSerializer::new(),
            chunk: 128,
            script: Script {
                accepted: Vec::new(),
                packets: Vec::new(),
                refused: 0,
            },
            last: [(0, 0); 7],
            last_len: [None; 7],
            last_type: [None; 7],
        }
    }

    fn push_packet(&mut self, ctx: &mut Ctx, p: Packet, m: RefMsg, prop: &str) -> RunResult {
        ctx.ev_bytes(10, &p.bytes);
        if p.bytes.is_empty() {
            return Err(Violation::new(
                format!("{}/roundtrip/empty-packet", prop),
                format!(
                    "serialize() accepted a message ({}) but returned an empty packet: the message is never sent",
                    m.brief()
                ),
            ));
        }
        let cls = csid_for_type(m.type_id);
        self.script.accepted.push(m);
        self.script.packets.push(SentPacket {
            bytes: p.bytes,
            droppable: p.can_be_dropped,
            msg: self.script.accepted.len() - 1,
            csid_class: cls,
        });
        Ok(())
    }

    /// Draw and execute one scripted operation.  Returns false at end of script.
    pub fn step(&mut self, ctx: &mut Ctx, k: &Knobs, mode: AMode) -> Result<bool, Violation> {
        let prop = ctx.prop;
        // op.kind: 0 = end, then messages, then chunk-size change, then (C19) AMF0 messages
        // built as RtmpMessage values with strings / property names around the 65,535 limit
        let kind = ctx.ch.weighted("op.kind", &[2, 12, k.setchunk_w, if mode == AMode::C19 { 2 } else { 0 }]);
        match kind {
            0 => Ok(false),
            3 => {
                use rml_amf0::Amf0Value;
                use rml_rtmp::messages::RtmpMessage;
                let len = *ctx.ch.pick("op.arg.strlen", &[65535usize, 65534, 65536, 70000, 0, 1]);
                let in_name = ctx.ch.chance("op.arg.inname", 1, 2);
                let as_command = ctx.ch.chance("op.arg.ascmd", 1, 2);
                // ASCII, or multi-byte UTF-8 with the same BYTE length (the limit is in bytes:
                // 32768 x U+00E9 is 65,536 bytes but only 32,768 characters)
                let multibyte = ctx.ch.chance("op.arg.multibyte", 1, 3);
                let long = if multibyte && len >= 2 {
                    let unit = 2 + ctx.ch.draw("op.arg.unit", 3) as usize;
                    let shift = ctx.ch.draw("op.arg.shift", 4) as usize;
                    crate::worlds::hostile::exact_bytes_string(len, unit, shift)
                } else {
                    "n".repeat(len)
                };
                debug_assert_eq!(long.len(), len);
                if multibyte {
                    ctx.probe("a.multibyte_amf0_string");
                }
                let value = if in_name {
                    if len == 0 {
                        Amf0Value::Object(std::collections::HashMap::new())
                    } else {
                        let mut props = std::collections::HashMap::new();
                        props.insert(long.clone(), Amf0Value::Number(1.0));
                        props.insert("other".to_string(), Amf0Value::Boolean(true));
                        Amf0Value::Object(props)
                    }
                } else {
                    Amf0Value::Utf8String(long.clone())
                };
                // the limit holds wherever the string sits: nested in arrays and objects too
                let nest = ctx.ch.weighted("op.arg.nest", &[4, 2, 2, 1, 1]);
                let wrap_obj = |v: Amf0Value| {
                    let mut props = std::collections::HashMap::new();
                    props.insert("inner".to_string(), v);
                    Amf0Value::Object(props)
                };
                let value = match nest {
                    0 => value,
                    1 => Amf0Value::StrictArray(vec![Amf0Value::Number(0.0), value]),
                    2 => wrap_obj(value),
                    3 => wrap_obj(Amf0Value::StrictArray(vec![value])),
                    _ => Amf0Value::StrictArray(vec![wrap_obj(value), Amf0Value::Null]),
                };
                if nest != 0 {
                    ctx.probe("a.nested_amf0_limit_value");
                }
                let message = if as_command {
                    RtmpMessage::Amf0Command { command_name: "cmd".to_string(), transaction_id: 1.0, command_object: Amf0Value::Null, additional_arguments: vec![value] }
                } else {
                    RtmpMessage::Amf0Data { values: vec![Amf0Value::Utf8String("d".to_string()), value] }
                };
                ctx.tr(|| format!("  op AMF0 message ({}) with a {} of {} bytes", if as_command { "command" } else { "data" }, if in_name { "property name" } else { "string" }, len));
                ctx.ev(14, len as u64, (in_name as u64) << 1 | as_command as u64);
                ctx.sched(0, 4, (len > 65535) as u64);
                let ts = 7u32;
                match message.clone().into_message_payload(RtmpTimestamp::new(ts), 1) {
                    Err(e) => {
                        if len <= 65535 {
                            return Err(Violation::new(
                                format!("{}/config/refused-expressible-string", prop),
                                format!("into_message_payload refused a {}-byte {}: {}", len, if in_name { "property name" } else { "string" }, e),
                            ));
                        }
                        ctx.probe("a.refused_long_amf0_string");
                        ctx.tr(|| format!("    refused: {}", e));
                        self.script.refused += 1;
                    }
                    Ok(payload) => {
                        if len > 65535 {
                            return Err(Violation::new(
                                format!("{}/config/accepted-inexpressible-{}", prop, if in_name { "property-name" } else { "string" }),
                                format!("a {}-byte AMF0 {} was accepted and encoded (the 16-bit length field cannot express it)", len, if in_name { "property name" } else { "string" }),
                            ));
                        }
                        // an accepted message must come back equal
                        match payload.to_rtmp_message() {
                            Ok(back) if back == message => {}
                            other => {
                                return Err(Violation::new(
                                    format!("{}/config/amf0-message-corrupted", prop),
                                    format!("message with a {}-byte {} does not convert back to itself: {:?}", len, if in_name { "property name" } else { "string" }, other.is_ok()),
                                ));
                            }
                        }
                        ctx.probe("a.long_amf0_string_roundtrip");
                        let m = RefMsg { type_id: payload.type_id, msid: 1, ts, payload: payload.data.to_vec() };
                        match self.ser.serialize(&payload, false, false) {
                            Ok(p) => {
                                let cls = csid_for_type(m.type_id) as usize;
                                self.last[cls] = (ts, ts.wrapping_sub(self.last[cls].0));
                                self.push_packet(ctx, p, m, prop)?;
                            }
                            Err(e) => {
                                return Err(Violation::new(format!("{}/roundtrip/refused-valid-message", prop), format!("serialize() refused {}: {}", m.brief(), e)));
                            }
                        }
                    }
                }
                Ok(true)
            }
            2 => {
                let size = draw_chunk_size(ctx, k.edge_cfg);
                let ts = match ctx.ch.weighted("op.arg.cts", &[4, 2, 2, 1, 1, 1]) {
                    0 => 0,
                    1 => 1000,
                    2 => 2000,
                    3 => 0xFF_FFFF,
                    4 => 0x100_0000,
                    _ => ctx.ch.draw("op.arg.ctsv", 1 << 32) as u32,
                };
                ctx.tr(|| format!("  op SetChunkSize size={} ts={}", size, ts));
                ctx.ev(11, size as u64, ts as u64);
                ctx.sched(0, 2, Ctx::bucket_len(size as usize));
                match self.ser.set_max_chunk_size(size, RtmpTimestamp::new(ts)) {
                    Ok(p) => {
                        if size == 0 || size > 0x7FFF_FFFF {
                            return Err(Violation::new(
                                format!("{}/config/accepted-inexpressible-chunk-size", prop),
                                format!("set_max_chunk_size({}) returned Ok; the protocol cannot express this value", size),
                            ));
                        }
                        let m = RefMsg {
                            type_id: 1,
                            msid: 0,
                            ts,
                            payload: size.to_be_bytes().to_vec(),
                        };
                        self.last[2] = (ts, ts.wrapping_sub(self.last[2].0));
                        self.push_packet(ctx, p, m, prop)?;
                        self.chunk = size;
                        ctx.probe("a.setchunk");
                    }
                    Err(e) => {
                        if size >= 1 && size <= 0x7FFF_FFFF {
                            return Err(Violation::new(
                                format!("{}/config/refused-valid-chunk-size", prop),
                                format!("set_max_chunk_size({}) returned Err({})", size, e),
                            ));
                        }
                        self.script.refused += 1;
                        ctx.probe("a.refused_chunk_size");
                        ctx.tr(|| format!("    refused: {}", e));
                    }
                }
                Ok(true)
            }
            _ => {
                let mut type_id = draw_type(ctx, k);
                let msid = draw_msid(ctx, k);
                let cls = csid_for_type(type_id) as usize;
                let (pt, pd) = self.last[cls];
                let ts = draw_ts(ctx, k, pt, pd);
                let mut len = draw_len(ctx, k, self.chunk);
                // coincidence: same length as the previous message on this chunk stream
                if let Some(pl) = self.last_len[cls] {
                    if ctx.ch.chance("op.arg.samelen", 1, 4) {
                        // within the chunk-count bound of draw_len: the chunk size may have shrunk
                        // since (a 16 MiB message at chunk size 1 costs the harness gigabytes)
                        len = pl.min((self.chunk.max(1) as usize).saturating_mul(70_000));
                    }
                }
                // coincidence between header fields: a length that makes (type id << s) + length
                // equal to the previous message's on this chunk stream although both differ (an
                // implementation that packs the two into one key compares them at once)
                if let (Some(pl), Some(ptype)) = (self.last_len[cls], self.last_type[cls]) {
                    if ptype != type_id && ctx.ch.chance("op.arg.packedlen", 1, 6) {
                        let shift = if ctx.ch.chance("op.arg.packedshift", 1, 2) { 16 } else { 8 };
                        let cand = pl as i64 + ((ptype as i64 - type_id as i64) << shift);
                        let bound = (self.chunk.max(1) as i64).saturating_mul(70_000).min(16_777_215);
                        // (type ids far apart would make megabyte messages the rule: keep to
                        // differences of a few units, which is where csid-sharing types sit)
                        if cand >= 0 && cand <= bound && (cand - pl as i64).abs() <= 4 * 65_536 {
                            len = cand as usize;
                            ctx.probe("a.type_length_packed_coincidence");
                        }
                    }
                }
                let over = mode == AMode::C19 && ctx.ch.chance("op.arg.over", 1, 60);
                if over {
                    len = 16_777_216 + ctx.ch.draw("op.arg.overn", 3) as usize;
                }
                let force = k.force_den > 0 && ctx.ch.chance("op.arg.force", 1, k.force_den);
                let droppable = k.drop_num > 0 && ctx.ch.chance("op.arg.drop", k.drop_num, 5);
                let seed = ctx.ch.sub_seed("bytes.seed");
                let payload = if type_id == 1 {
                    // a raw type-1 message must announce the size in force (anything else is API
                    // misuse: the serializer would not adopt it)
                    if self.chunk == 0 {
                        type_id = 9;
                        expand_bytes(seed, len)
                    } else {
                        self.chunk.to_be_bytes().to_vec()
                    }
                } else if (2..=6).contains(&type_id) && !over && ctx.ch.chance("op.arg.semantic", 1, 2) {
                    // well-formed protocol control bodies with meaningful values: an Abort naming a
                    // chunk stream in use, acknowledgement / window values, user control events
                    let v = *ctx.ch.pick("op.arg.ctlv", &[2u32, 3, 4, 5, 6, 0, 1, 7, 0x7FFF_FFFF, 0xFFFF_FFFF]);
                    match type_id {
                        4 => {
                            let mut b = vec![0u8, *ctx.ch.pick("op.arg.evt", &[0u8, 1, 2, 4, 6, 7])];
                            b.extend_from_slice(&v.to_be_bytes());
                            b
                        }
                        6 => {
                            let mut b = v.to_be_bytes().to_vec();
                            b.push(ctx.ch.draw("op.arg.bwlimit", 3) as u8);
                            b
                        }
                        _ => v.to_be_bytes().to_vec(),
                    }
                } else {
                    expand_bytes(seed, len)
                };
                let m = RefMsg {
                    type_id,
                    msid,
                    ts,
                    payload,
                };
                ctx.tr(|| {
                    format!(
                        "  op Msg {} force_uncompressed={} can_be_dropped={} seed={}",
                        m.brief(),
                        force,
                        droppable,
                        seed
                    )
                });
                ctx.ev(12, (type_id as u64) << 32 | msid as u64, (ts as u64) << 32 | m.payload.len() as u64);
                ctx.ev(13, force as u64, droppable as u64);
                ctx.sched(0, 1, (cls as u64) << 8 | Ctx::bucket_len(m.payload.len()) << 4 | (force as u64) << 1 | droppable as u64);
                ctx.sched(0, 3, ((ts.wrapping_sub(pt) >= 0xFF_FFFF) as u64) << 2 | ((ts >= 0xFF_FFFF) as u64) << 1 | (ts < pt) as u64);
                let mp = MessagePayload {
                    timestamp: RtmpTimestamp::new(ts),
                    type_id,
                    message_stream_id: msid,
                    data: Bytes::from(m.payload.clone()),
                };
                match self.ser.serialize(&mp, force, droppable) {
                    Ok(p) => {
                        if m.payload.len() > 16_777_215 {
                            return Err(Violation::new(
                                format!("{}/config/accepted-oversize-payload", prop),
                                format!("serialize() accepted a payload of {} bytes", m.payload.len()),
                            ));
                        }
                        // The returned mark, not the requested one, defines the droppable set
                        // (C08 quantifies over "packets returned marked as droppable"); a
                        // serializer may decline to mark a packet. The mark being set only
                        // where the application asked is C18's clause, checked on sessions.
                        if p.can_be_dropped != droppable {
                            ctx.probe("a.droppable_mark_differs");
                        }
                        self.last[cls] = (ts, ts.wrapping_sub(pt));
                        self.last_len[cls] = Some(m.payload.len());
                        self.last_type[cls] = Some(m.type_id);
                        if m.payload.is_empty() {
                            ctx.probe("a.zero_len_msg");
                        }
                        if m.payload.len() > self.chunk as usize {
                            ctx.probe("a.multi_chunk_msg");
                        }
                        if m.payload.len() >= 16_777_214 {
                            ctx.probe("a.max_size_msg");
                        }
                        self.push_packet(ctx, p, m, prop)?;
                    }
                    Err(e) => {
                        if m.payload.len() <= 16_777_215 {
                            return Err(Violation::new(
                                format!("{}/roundtrip/refused-valid-message", prop),
                                format!("serialize() refused {}: {}", m.brief(), e),
                            ));
                        }
                        self.script.refused += 1;
                        ctx.probe("a.refused_oversize");
                        ctx.tr(|| format!("    refused: {}", e));
                    }
                }
                Ok(true)
            }
        }
    }
}

fn payload_to_ref(p: &MessagePayload) -> RefMsg {
    RefMsg {
        type_id: p.type_id,
        msid: p.message_stream_id,
        ts: p.timestamp.value,
        payload: p.data.to_vec(),
    }
}

/// Message equality for the round-trip oracles.  One narrow equivalence: two Set Chunk Size
/// announcements of 16,777,215 or more mean the same thing (RTMP 1.0 5.4.1: "all sizes greater
/// than 16777215 are equivalent since no chunk is larger than one message"), so a serializer that
/// announces the canonical value for a larger request still honours the request.  That the
/// announced value bounds every later chunk is checked by the strict decoder, which follows the
/// decoded value, not the requested one.
pub fn same_msg(a: &RefMsg, b: &RefMsg) -> bool {
    if a == b {
        return true;
    }
    if a.type_id == 1 && b.type_id == 1 && a.msid == b.msid && a.ts == b.ts && a.payload.len() == 4 && b.payload.len() == 4 {
        let va = u32::from_be_bytes([a.payload[0], a.payload[1], a.payload[2], a.payload[3]]) & 0x7FFF_FFFF;
        let vb = u32::from_be_bytes([b.payload[0], b.payload[1], b.payload[2], b.payload[3]]) & 0x7FFF_FFFF;
        return va >= 0xFF_FFFF && vb >= 0xFF_FFFF;
    }
    false
}

fn diff_msg(a: &RefMsg, b: &RefMsg) -> &'static str {
    if a.type_id != b.type_id {
        "wrong-type"
    } else if a.msid != b.msid {
        "wrong-stream-id"
    } else if a.ts != b.ts {
        "wrong-timestamp"
    } else {
        "wrong-payload"
    }
}

/// Deliver `wire` (with packet boundaries) to a fresh real deserializer under `seg` and compare
/// against `expected`.  `oracle` names the oracle for the signature.
pub fn receive_and_compare(
    ctx: &mut Ctx,
    link: &mut Link,
    expected: &[RefMsg],
    oracle: &str,
    mem_tag: u32,
) -> RunResult {
    let prop = ctx.prop;
    let mut de = ChunkDeserializer::new();
    let mut mem = NodeMem::new(mem_tag);
    let mut got = 0usize;
    while link.available() > 0 {
        if !ctx.step() {
            // step budget used up: deliver the rest in large pieces instead of giving up (an
            // exhausted budget must never look like a lost message)
            link.mode = SegMode::All;
        }
        let seg = link.next_segment(ctx);
        ctx.sched(1, 1, Ctx::bucket_len(seg.len()));
        ctx.ev(20, seg.len() as u64, link.head);
        ctx.tr(|| format!("  deliver {} bytes (stream offset {}..{})", seg.len(), link.head - seg.len() as u64, link.head));
        let mut input: &[u8] = &seg;
        loop {
            let r = mem.call(ctx, input.len(), || de.get_next_message(input))?;
            input = &[];
            match r {
                Ok(Some(p)) => {
                    let m = payload_to_ref(&p);
                    ctx.ev(21, m.ts as u64, m.payload.len() as u64);
                    ctx.tr(|| format!("    -> message {}", m.brief()));
                    if got >= expected.len() {
                        return Err(Violation::new(
                            format!("{}/{}/extra-message", prop, oracle),
                            format!("deserializer returned a message that was never sent: {}", m.brief()),
                        ));
                    }
                    if !same_msg(&m, &expected[got]) {
                        return Err(Violation::new(
                            format!("{}/{}/{}", prop, oracle, diff_msg(&m, &expected[got])),
                            format!(
                                "message #{} differs: sent [{}] received [{}]",
                                got,
                                expected[got].brief(),
                                m.brief()
                            ),
                        ));
                    }
                    got += 1;
                    if m.type_id == 1 && m.payload.len() >= 4 {
                        let v = u32::from_be_bytes([m.payload[0], m.payload[1], m.payload[2], m.payload[3]])
                            & 0x7FFF_FFFF;
                        if let Err(e) = de.set_max_chunk_size(v as usize) {
                            return Err(Violation::new(
                                format!("{}/{}/set-chunk-size-refused", prop, oracle),
                                format!("deserializer refused decoded chunk size {}: {}", v, e),
                            ));
                        }
                    }
                }
                Ok(None) => break,
                Err(e) => {
                    return Err(Violation::new(
                        format!("{}/{}/deserializer-error", prop, oracle),
                        format!("get_next_message returned Err({}) after {} messages", e, got),
                    ));
                }
            }
        }
    }
    if got != expected.len() {
        return Err(Violation::new(
            format!("{}/{}/missing-message", prop, oracle),
            format!(
                "all bytes delivered but only {} of {} messages were returned (first missing: {})",
                got,
                expected.len(),
                expected[got].brief()
            ),
        ));
    }
    Ok(())
}

/// Strict reference decode of `wire`; compare with `expected`.
pub fn tap_and_compare(
    ctx: &mut Ctx,
    wire: &[&[u8]],
    expected: &[RefMsg],
    oracle: &str,
    link: Option<&mut Link>,
    record_states: bool,
) -> RunResult {
    let prop = ctx.prop;
    let mut dec = RefChunkDecoder::new(true);
    dec.record_chunks = true;
    let mut got: Vec<RefMsg> = Vec::new();
    for w in wire {
        match dec.feed(w) {
            Ok(mut v) => got.append(&mut v),
            Err(e) => {
                return Err(Violation::new(
                    format!("{}/{}/{}", prop, oracle, e.class),
                    format!("reference decoder rejected the wire at offset {}: {}", e.offset, e.detail),
                ));
            }
        }
        // a packet carries whole messages: nothing may be pending at a packet boundary
        if dec.pending_bytes() != 0 || dec.messages_in_progress() != 0 {
            return Err(Violation::new(
                format!("{}/{}/packet-not-self-contained", prop, oracle),
                "a packet ended in the middle of a chunk or of a message".to_string(),
            ));
        }
    }
    if let Err(e) = dec.finish() {
        return Err(Violation::new(
            format!("{}/{}/{}", prop, oracle, e.class),
            e.detail,
        ));
    }
    for (i, m) in got.iter().enumerate() {
        if i >= expected.len() {
            return Err(Violation::new(
                format!("{}/{}/extra-message", prop, oracle),
                format!("reference decoder found an extra message: {}", m.brief()),
            ));
        }
        if !same_msg(m, &expected[i]) {
            return Err(Violation::new(
                format!("{}/{}/{}", prop, oracle, diff_msg(m, &expected[i])),
                format!(
                    "wire message #{} differs: accepted [{}] on the wire [{}]",
                    i,
                    expected[i].brief(),
                    m.brief()
                ),
            ));
        }
    }
    if got.len() != expected.len() {
        return Err(Violation::new(
            format!("{}/{}/missing-message", prop, oracle),
            format!("wire carries {} messages, {} were accepted", got.len(), expected.len()),
        ));
    }
    if record_states {
        for c in dec.chunks.iter() {
            let mut h = fnv_new();
            h = fnv_u64(h, c.fmt as u64);
            h = fnv_u64(h, c.ext as u64);
            h = fnv_u64(h, c.first as u64);
            h = fnv_u64(h, c.csid as u64);
            h = fnv_u64(h, (c.payload_len == 0) as u64);
            ctx.state(h);
            if c.fmt == 3 && c.first {
                ctx.probe("a.fmt3_new_message");
            }
            if c.fmt == 3 && !c.first && c.ext {
                ctx.probe("a.ext_on_continuation");
            }
            if c.fmt == 0 && !c.first {
                ctx.probe("a.fmt0_on_continuation");
            }
            if c.ext && c.fmt != 3 {
                ctx.probe("a.ext_timestamp");
            }
            match c.fmt {
                1 => ctx.probe("a.fmt1"),
                2 => ctx.probe("a.fmt2"),
                _ => {}
            }
        }
    }
    if let Some(l) = link {
        for c in dec.chunks.iter() {
            l.note_header(c.off, c.hdr_len);
        }
    }
    Ok(())
}

pub fn run(ctx: &mut Ctx, mode: AMode) -> RunResult {
    ctx.world("A");
    let k = Knobs::draw(ctx, mode);
    let seg_mode = Link::draw_mode(ctx);
    let mut sender = Sender::new();
    // deeper histories in the thorough tier
    let max_ops = if ctx.tier_thorough { 40 } else { 12 };
    let mut ops = 0;
    while ops < max_ops {
        if !sender.step(ctx, &k, mode)? {
            break;
        }
        ops += 1;
    }
    let script = sender.script;
    if script.accepted.len() >= 2 {
        ctx.nontrivial = true;
    }
    ctx.steps += ops as u64;

    if mode == AMode::C19 {
        // the deserializer's own setter, over the same edge table
        // the setter takes a usize: also values beyond 32 bits, in particular ones whose low 32
        // bits look like a legal size
        let v: u64 = if ctx.ch.chance("op.arg.csz64", 1, 4) {
            ctx.probe("a.deser_chunk_size_beyond_u32");
            match ctx.ch.draw("op.arg.csz64k", 6) {
                0 => (1u64 << 32) + 1,
                1 => (1u64 << 32) + 128,
                2 => 1u64 << 32,
                3 => u64::MAX,
                4 => (1u64 << 32) + ctx.ch.range("op.arg.cszv", 1, 0x7FFF_FFFF),
                _ => ((1 + ctx.ch.draw("op.arg.cszhi", 1 << 20)) << 32) + ctx.ch.draw("op.arg.cszv", 1 << 32),
            }
        } else {
            draw_chunk_size(ctx, true) as u64
        };
        let mut de = ChunkDeserializer::new();
        let r = de.set_max_chunk_size(v as usize);
        ctx.tr(|| format!("  deserializer.set_max_chunk_size({}) -> {}", v, if r.is_ok() { "Ok" } else { "Err" }));
        let expressible = v >= 1 && v <= 0x7FFF_FFFF;
        if r.is_ok() && !expressible {
            return Err(Violation::new(
                format!("{}/config/deserializer-accepted-inexpressible-chunk-size", ctx.prop),
                format!("ChunkDeserializer::set_max_chunk_size({}) returned Ok; the protocol cannot express this value", v),
            ));
        }
        if r.is_err() && expressible {
            return Err(Violation::new(
                format!("{}/config/deserializer-refused-valid-chunk-size", ctx.prop),
                format!("ChunkDeserializer::set_max_chunk_size({}) returned Err", v),
            ));
        }
        if r.is_err() {
            ctx.probe("a.deser_refused_chunk_size");
        }
    }
    match mode {
        AMode::C01 | AMode::C19 => {
            let mut link = Link::new(seg_mode);
            // the tap is used here only to find header positions for the link's cut bias
            let wire: Vec<&[u8]> = script.packets.iter().map(|p| &p.bytes[..]).collect();
            let mut dec = RefChunkDecoder::new(false);
            dec.record_chunks = true;
            for p in &script.packets {
                link.push(&p.bytes);
                let _ = dec.feed(&p.bytes);
            }
            for c in dec.chunks.iter() {
                link.note_header(c.off, c.hdr_len);
            }
            let _ = wire;
            receive_and_compare(ctx, &mut link, &script.accepted, "roundtrip", 1)?;
            if link.deliveries > 1 {
                ctx.probe("a.multi_call_delivery");
            }
        }
        AMode::C07 => {
            let wire: Vec<&[u8]> = script.packets.iter().map(|p| &p.bytes[..]).collect();
            tap_and_compare(ctx, &wire, &script.accepted, "strict-decode", None, true)?;
        }
        AMode::C08 => {
            run_drops(ctx, &script, seg_mode)?;
        }
    }
    let _ = SegMode::All;
    Ok(())
}

fn run_drops(ctx: &mut Ctx, script: &Script, seg_mode: SegMode) -> RunResult {
    let droppable: Vec<usize> = script
        .packets
        .iter()
        .enumerate()
        .filter(|(_, p)| p.droppable)
        .map(|(i, _)| i)
        .collect();
    let kdrop = droppable.len();
    if kdrop >= 1 && script.accepted.len() >= 2 {
        ctx.nontrivial = true;
    } else {
        ctx.nontrivial = false;
    }
    let enum_limit = if ctx.tier_thorough { 8 } else { 6 };
    // work bound per run: every subset decodes the surviving wire twice; a script with megabytes
    // on the wire is sampled instead of enumerated (a budget, not an oracle)
    let wire_bytes: u64 = script.packets.iter().map(|p| p.bytes.len() as u64).sum();
    let affordable = kdrop <= 20 && wire_bytes.saturating_mul(1u64 << kdrop.min(20)) <= 256 * 1024 * 1024;
    if kdrop >= 1 && kdrop <= enum_limit && !affordable {
        ctx.probe("c08.large_script_sampled");
    }
    let mut subsets: Vec<u64> = Vec::new();
    if kdrop == 0 {
        subsets.push(0);
    } else if kdrop <= enum_limit && affordable {
        for s in 0..(1u64 << kdrop) {
            subsets.push(s);
        }
        ctx.probe("c08.exhaustive_subset_scripts");
    } else {
        // sampled subsets with a per-run drop rate, plus none and all
        subsets.push(0);
        subsets.push((1u64 << kdrop) - 1);
        let rate = *ctx.ch.pick("fault.arg.rate", &[5u64, 1, 9]);
        for _ in 0..6 {
            let mut s = 0u64;
            for b in 0..kdrop {
                if ctx.ch.chance("fault.kind", rate, 10) {
                    s |= 1 << b;
                }
            }
            subsets.push(s);
        }
    }
    for s in subsets {
        let mut dropped = vec![false; script.packets.len()];
        for (b, &pi) in droppable.iter().enumerate() {
            if s >> b & 1 == 1 {
                dropped[pi] = true;
            }
        }
        let ndrop = dropped.iter().filter(|d| **d).count() as u64;
        ctx.stats.faults.entry("drop_droppable").and_modify(|c| *c += ndrop).or_insert(ndrop);
        ctx.probe("c08.subset_executions");
        ctx.sched(2, s, kdrop as u64);
        ctx.ev(30, s, kdrop as u64);
        ctx.tr(|| format!("  drop subset {:#b} of {} droppable packets", s, kdrop));
        let survivors: Vec<&SentPacket> = script
            .packets
            .iter()
            .enumerate()
            .filter(|(i, _)| !dropped[*i])
            .map(|(_, p)| p)
            .collect();
        let expected: Vec<RefMsg> = survivors.iter().map(|p| script.accepted[p.msg].clone()).collect();
        let wire: Vec<&[u8]> = survivors.iter().map(|p| &p.bytes[..]).collect();
        let mut link = Link::new(seg_mode);
        for p in &survivors {
            link.push(&p.bytes);
        }
        // independent decoder on the post-drop wire
        tap_and_compare(ctx, &wire, &expected, "drop-refdecode", Some(&mut link), false)?;
        // the library's own deserializer on the post-drop wire
        receive_and_compare(ctx, &mut link, &expected, "drop-roundtrip", 1)?;
    }
    Ok(())
}
