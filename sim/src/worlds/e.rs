//! World E -- real `ServerSession` + scripted application actor against a scripted client peer
//! (reference encoder), with the ServerModel as oracle.  Serves C09, and the server side of
//! C17 / C18 / C15 / C03.

use crate::choice::expand_bytes;
use crate::engine::{Ctx, RunResult, Violation};
use crate::link::Link;
use crate::models::server::{self as sm, SIn, SOut, ServerModel};
use crate::refs::amf0::AV;
use crate::refs::chunk::{RefChunkDecoder, RefChunkEncoder, RefMsg};
use crate::refs::msg::{self, Body};
use crate::worlds::d::advance_time;
use crate::worlds::sess::{payload_hash, CallOut, NodeClock, SrvNode, Want};
use crate::worlds::transcript;
use bytes::Bytes;
use rml_rtmp::sessions::{ServerSessionConfig, ServerSessionEvent, StreamMetadata};
use rml_rtmp::time::RtmpTimestamp;

#[derive(Clone, Copy, PartialEq, Eq, Debug)]
pub enum EMode {
    C09,
    C17,
    C18,
}

/// The statement's metadata mapping: eleven known fields.
pub fn expected_metadata(obj: &AV) -> StreamMetadata {
    let mut m = StreamMetadata::new();
    let num = |k: &str| obj.get(k).and_then(|v| v.as_num());
    m.video_width = num("width").map(|x| x as u32);
    m.video_height = num("height").map(|x| x as u32);
    m.video_codec_id = num("videocodecid").map(|x| x as u32);
    m.video_bitrate_kbps = num("videodatarate").map(|x| x as u32);
    m.video_frame_rate = num("framerate").map(|x| x as f32);
    m.audio_codec_id = num("audiocodecid").map(|x| x as u32);
    m.audio_bitrate_kbps = num("audiodatarate").map(|x| x as u32);
    m.audio_sample_rate = num("audiosamplerate").map(|x| x as u32);
    m.audio_channels = num("audiochannels").map(|x| x as u32);
    m.audio_is_stereo = match obj.get("stereo") {
        Some(AV::Bool(b)) => Some(*b),
        _ => None,
    };
    m.encoder = obj.get("encoder").and_then(|v| v.as_str()).map(|s| s.to_string());
    m
}

fn integral_sid(v: Option<&AV>) -> Option<u32> {
    match v {
        Some(AV::Num(n)) if *n >= 0.0 && n.fract() == 0.0 && *n < 4294967296.0 => Some(*n as u32),
        _ => None,
    }
}

/// Classify a peer message (from its bytes) into the model's input alphabet.
pub fn classify(m: &RefMsg) -> SIn {
    // peers may flag AMF0 commands / data as AMF3 (types 17 with a leading 0 byte, and 15)
    if m.type_id == 17 && m.payload.first() == Some(&0) {
        let mut n = m.clone();
        n.type_id = 20;
        n.payload.remove(0);
        return classify(&n);
    }
    if m.type_id == 15 {
        let mut n = m.clone();
        n.type_id = 18;
        return classify(&n);
    }
    match m.type_id {
        8 => SIn::Audio { msid: m.msid, len: m.payload.len(), hash: payload_hash(&m.payload), ts: m.ts },
        9 => SIn::Video { msid: m.msid, len: m.payload.len(), hash: payload_hash(&m.payload), ts: m.ts },
        4 => match msg::decode(m) {
            Ok(Body::UserControl { event: 6, a, .. }) => SIn::PingReq { ts: a },
            _ => SIn::Other,
        },
        18 => match msg::decode(m) {
            Ok(Body::Data(vals)) => {
                if vals.first().and_then(|v| v.as_str()) == Some("@setDataFrame") {
                    let well = vals.len() >= 3 && vals[1].as_str() == Some("onMetaData") && vals[2].is_obj();
                    if well {
                        SIn::Meta { msid: m.msid, meta: Some(expected_metadata(&vals[2])) }
                    } else if vals.len() >= 2 && vals[1].as_str() != Some("onMetaData") {
                        SIn::DataOther
                    } else {
                        SIn::Meta { msid: m.msid, meta: None }
                    }
                } else {
                    SIn::DataOther
                }
            }
            _ => SIn::Other,
        },
        20 => match msg::decode(m) {
            Ok(Body::Command { name, tx, obj, args }) => match name.as_str() {
                "connect" => SIn::Connect { tx, app: obj.get("app").and_then(|v| v.as_str()).map(|s| s.to_string()) },
                "createStream" => SIn::CreateStream { tx },
                "publish" => {
                    let key = args.first().and_then(|v| v.as_str()).map(|s| s.to_string());
                    let mode = args.get(1).and_then(|v| v.as_str()).and_then(|s| match s.to_lowercase().as_str() {
                        "live" => Some("Live".to_string()),
                        "record" => Some("Record".to_string()),
                        "append" => Some("Append".to_string()),
                        _ => None,
                    });
                    let (key, mode) = if key.is_some() && mode.is_some() { (key, mode) } else { (None, None) };
                    SIn::Publish { msid: m.msid, key, mode }
                }
                "play" => SIn::Play { msid: m.msid, key: args.first().and_then(|v| v.as_str()).map(|s| s.to_string()) },
                "closeStream" => SIn::Close { sid: integral_sid(args.first()) },
                "deleteStream" => SIn::Delete { sid: integral_sid(args.first()) },
                _ => SIn::Other,
            },
            _ => SIn::Other,
        },
        _ => SIn::Other,
    }
}

fn event_to_out(e: &ServerSessionEvent) -> Option<SOut> {
    Some(match e {
        ServerSessionEvent::ConnectionRequested { request_id, app_name } => SOut::ConnReq { id: *request_id, app: app_name.clone() },
        ServerSessionEvent::PublishStreamRequested { request_id, app_name, stream_key, mode } => SOut::PubReq { id: *request_id, app: app_name.clone(), key: stream_key.clone(), mode: format!("{:?}", mode) },
        ServerSessionEvent::PlayStreamRequested { request_id, app_name, stream_key, stream_id, .. } => SOut::PlayReq { id: *request_id, app: app_name.clone(), key: stream_key.clone(), sid: *stream_id },
        ServerSessionEvent::PublishStreamFinished { app_name, stream_key } => SOut::PubFin { app: app_name.clone(), key: stream_key.clone() },
        ServerSessionEvent::PlayStreamFinished { app_name, stream_key } => SOut::PlayFin { app: app_name.clone(), key: stream_key.clone() },
        ServerSessionEvent::AudioDataReceived { app_name, stream_key, data, timestamp } => SOut::Audio { app: app_name.clone(), key: stream_key.clone(), len: data.len(), hash: payload_hash(&data[..]), ts: timestamp.value },
        ServerSessionEvent::VideoDataReceived { app_name, stream_key, data, timestamp } => SOut::Video { app: app_name.clone(), key: stream_key.clone(), len: data.len(), hash: payload_hash(&data[..]), ts: timestamp.value },
        ServerSessionEvent::StreamMetadataChanged { app_name, stream_key, metadata } => SOut::Meta { app: app_name.clone(), key: stream_key.clone(), meta: metadata.clone() },
        _ => return None,
    })
}

fn packet_to_out(m: &RefMsg) -> Option<SOut> {
    match msg::decode(m) {
        Ok(Body::Command { name, tx, args, .. }) => match name.as_str() {
            "_result" => Some(SOut::Result { tx, msid: m.msid, first_arg: args.first().and_then(|v| v.as_num()) }),
            "_error" => Some(SOut::Error { tx, msid: m.msid }),
            "onStatus" => Some(SOut::OnStatus { msid: m.msid, code: args.first().and_then(|a| a.get("code")).and_then(|c| c.as_str()).unwrap_or("").to_string() }),
            _ => None,
        },
        Ok(Body::UserControl { event: 7, a, .. }) => Some(SOut::PingResp { ts: a }),
        _ => None,
    }
}

/// Tracked outputs of one call, in production order.  None when the output tap lost sync (then
/// the model cannot follow; C18 reports that).
pub fn tracked(out: &CallOut<ServerSessionEvent>) -> Option<Vec<SOut>> {
    let n_pk = out.order.iter().filter(|o| **o == 0).count();
    if out.decoded.len() != n_pk {
        return None;
    }
    let mut res = Vec::new();
    let (mut pi, mut ei) = (0, 0);
    for o in out.order.iter() {
        if *o == 0 {
            if let Some(x) = packet_to_out(&out.decoded[pi]) {
                res.push(x);
            }
            pi += 1;
        } else {
            if let Some(x) = event_to_out(&out.events[ei]) {
                res.push(x);
            }
            ei += 1;
        }
    }
    Some(res)
}

pub struct World {
    pub mode: EMode,
    pub srv: SrvNode,
    pub link: Link,
    hdr_tap: RefChunkDecoder,
    pub enc: RefChunkEncoder,
    pub model: ServerModel,
    pub model_alive: bool,
    pub time_scale: u64,
    peer_ts: u32,
    peer_msgs: usize,
    peer_open: bool,
    app_calls: usize,
    sent_bytes: u64,
    pub cfg: ServerSessionConfig,
    pub order_seed: u64,
    pub off_ms: u64,
    /// C03: hostile peer -- (enabled link fault kinds, 1/rate per packet, faults fired)
    pub hostile: Option<(Vec<usize>, u64, usize)>,
    history: Vec<u8>,
    hostile_after: usize,
    /// rare long histories: hundreds of requests, so that ids / counters grow large
    pub long_history: bool,
    /// life after an error (see World F): 0 = no call failed yet, 1 = the run went on after a
    /// failed handle_input and nothing has succeeded since, 2 = a later call succeeded
    post_err: u8,
    deferred: Option<Violation>,
}

fn viol(ctx: &Ctx, class: &str, msg: String) -> Violation {
    Violation::new(format!("{}/servermodel/{}", ctx.prop, class), msg)
}

/// Transaction ids are arbitrary AMF0 numbers chosen by the caller.
fn draw_tx(ctx: &mut Ctx) -> f64 {
    match ctx.ch.weighted("op.arg.txk", &[10, 1, 1, 1, 1, 1]) {
        0 => ctx.ch.draw("op.arg.tx", 9) as f64,
        1 => 2.5,
        2 => -1.0,
        3 => 4294967296.0,
        4 => 1e300,
        _ => f64::NAN,
    }
}

const KEYS: [&str; 5] = ["key", "cam1", "str\u{e9}am", "", "kkkkkkkkkkkkkkkkkkkkkkkkkkkkkkkkkkkkkkkkkkkkkkkkkkkkkkkkkkkkkkkkkkkkkkkkkkkkkkkkkkkkkkkkkkkkkkkkkkkkkkkkkkkkkkkkkkkkkkkkkkkkkkkkkkkkkkkkkkkkkkkkkkkkkkkkkkkkkkkkkkkkkkkkkkkkkkkkkkkkkkkkkkkkkkkkkkkkkkkkkkkkkkkkkkkkkkkkkkkkkkkkkkkkkkkkkkkkkkkkkkkkkkkkkkkkkkkkkkkkkkkkkkkkkkkkkkkkkkkkkkkkkkkkkkkkkkkkkkkkkkkkkkkkkk"];
const APPS: [&str; 4] = ["live", "app", "live/", "a/b"];

impl World {
    /// Like `push`, but a message of several chunks is sometimes interrupted by a complete
    /// other message on another chunk stream (RTMP allows the chunks of different chunk streams
    /// to interleave; the interloper is a ping request, which every state answers).
    fn push_interleaved(&mut self, ctx: &mut Ctx, m: &RefMsg, csid: u32, fmt: u8) {
        let chunk = self.enc.chunk_size.max(1) as usize;
        if m.payload.len() <= chunk || m.payload.len() / chunk > 5000 || !ctx.ch.chance("op.arg.interleave", 1, 5) {
            self.push(m, csid, fmt);
            return;
        }
        let total_chunks = (m.payload.len() + chunk - 1) / chunk;
        let at = 1 + ctx.ch.draw("op.arg.interleaveat", (total_chunks - 1) as u64) as usize;
        let mut out = Vec::new();
        let mut cur = crate::refs::chunk::EncCursor { csid, msg: m.clone(), sent: 0, started: false };
        self.enc.start(&mut out, &mut cur, fmt);
        let mut sent_chunks = 1usize;
        while !cur.done() {
            if sent_chunks == at {
                let ping = msg::user_control(m.ts, 6, ctx.ch.draw("op.arg.pingts", 1 << 32) as u32, None);
                let icsid = if csid == 2 { 7 } else { 2 };
                let f = self.enc.best_format(icsid, &ping);
                self.enc.encode_message(&mut out, icsid, &ping, f);
                ctx.probe("peer.interleaved_chunk_streams");
                ctx.tr(|| format!("  peer: (ping request on csid {} between chunks {} and {} of the next message)", icsid, at, at + 1));
            }
            self.enc.cont(&mut out, &mut cur);
            sent_chunks += 1;
        }
        self.push_raw(&out);
    }

    fn push(&mut self, m: &RefMsg, csid: u32, fmt: u8) {
        let mut out = Vec::new();
        self.enc.encode_message(&mut out, csid, m, fmt);
        self.push_raw(&out);
    }

    fn push_raw(&mut self, out: &[u8]) {
        let out = out.to_vec();
        self.sent_bytes += out.len() as u64;
        self.link.push(&out);
        if self.history.len() < 4096 {
            self.history.extend_from_slice(&out);
        }
        self.hdr_tap.chunks.clear();
        let _ = self.hdr_tap.feed(&out);
        for c in self.hdr_tap.chunks.iter() {
            self.link.note_header(c.off, c.hdr_len);
        }
    }

    /// Message streams an answer concerning a request id the model does not hold as pending may
    /// use: every stream this server created, stream 0, and the stream a request in limbo
    /// arrived on.
    fn loose_streams(&self, id: u32) -> Vec<u32> {
        let mut v: Vec<u32> = self.srv.c.known_sids.iter().copied().chain(std::iter::once(0)).collect();
        if let Some(sm::Pending::Publish { sid, .. }) | Some(sm::Pending::Play { sid, .. }) = self.model.limbo.get(&id) {
            v.push(*sid);
        }
        v
    }

    fn pick_sid(&self, ctx: &mut Ctx) -> u32 {
        let existing: Vec<u32> = self.model.streams.keys().copied().collect();
        let deleted: Vec<u32> = self.model.issued_sids.iter().filter(|s| !self.model.streams.contains_key(s)).copied().collect();
        match ctx.ch.weighted("op.arg.sidk", &[6, 2, 1, 1]) {
            0 if !existing.is_empty() => existing[ctx.ch.draw("op.arg.sid", existing.len() as u64) as usize],
            1 if !deleted.is_empty() => deleted[ctx.ch.draw("op.arg.sid", deleted.len() as u64) as usize],
            2 => 0,
            _ => *ctx.ch.pick("op.arg.sid", &[1u32, 2, 7, 99]),
        }
    }

    fn metadata_object(ctx: &mut Ctx) -> AV {
        let mut props = Vec::new();
        let mask = ctx.ch.draw("op.arg.metamask", 1 << 12);
        let names = ["width", "height", "videocodecid", "videodatarate", "framerate", "audiocodecid", "audiodatarate", "audiosamplerate", "audiochannels"];
        for (i, n) in names.iter().enumerate() {
            if mask >> i & 1 == 1 {
                let v = if ctx.ch.chance("op.arg.metabad", 1, 12) { AV::s("oops") } else { AV::Num(ctx.ch.draw("op.arg.metav", 5000) as f64) };
                props.push((n.to_string(), v));
            }
        }
        if mask >> 9 & 1 == 1 {
            props.push(("stereo".to_string(), AV::Bool(ctx.ch.chance("op.arg.metab", 1, 2))));
        }
        if mask >> 10 & 1 == 1 {
            let enc = match ctx.ch.weighted("op.arg.enck", &[4, 1, 2]) {
                0 => "obs-studio".to_string(),
                1 => String::new(),
                _ => crate::worlds::hostile::long_mixed_string(ctx),
            };
            props.push(("encoder".to_string(), AV::Str(enc)));
        }
        if mask >> 11 & 1 == 1 {
            props.push(("unknownfield".to_string(), AV::Num(1.0)));
        }
        if ctx.ch.chance("op.arg.ecma", 1, 4) {
            AV::Ecma(props)
        } else {
            AV::Obj(props)
        }
    }

    /// The scripted client peer emits its next message.
    /// C03: a hostile message in a well-formed chunk stream, optionally hit by a link fault.
    fn hostile_step(&mut self, ctx: &mut Ctx) {
        let pool: Vec<u32> = vec![0, 1, 2, self.pick_sid(ctx)];
        let m = crate::worlds::hostile::draw_message(ctx, &pool);
        let csid = 2 + ctx.ch.draw("op.arg.csid", 7) as u32;
        let legal = self.enc.legal_formats(csid, &m);
        let opts: Vec<u8> = (0..4u8).rev().filter(|f| legal[*f as usize]).collect();
        let f = opts[ctx.ch.draw("op.arg.fmt", opts.len() as u64) as usize];
        ctx.tr(|| format!("  hostile peer: [{}] csid {} fmt {} body {:02x?}", m.brief(), csid, f, &m.payload[..m.payload.len().min(24)]));
        let mut out = Vec::new();
        self.enc.encode_message(&mut out, csid, &m, f);
        if m.type_id == 1 && m.payload.len() >= 4 {
            let v = u32::from_be_bytes([m.payload[0], m.payload[1], m.payload[2], m.payload[3]]) & 0x7FFF_FFFF;
            if v >= 1 {
                self.enc.chunk_size = v;
            }
        }
        if let Some((kinds, rate, fired)) = self.hostile.clone() {
            if !kinds.is_empty() && fired < 3 && ctx.ch.chance("fault.kind", 1, rate) {
                let kind = kinds[ctx.ch.draw("fault.arg.kind", kinds.len() as u64) as usize];
                let hist = self.history.clone();
                crate::link::mutate(ctx, kind, &mut out, &hist);
                self.hostile = Some((kinds, rate, fired + 1));
            }
        }
        ctx.ev_bytes(140, &out);
        self.link.push(&out);
        if self.history.len() < 4096 {
            self.history.extend_from_slice(&out);
        }
        self.peer_msgs += 1;
    }

    fn peer_step(&mut self, ctx: &mut Ctx) {
        if self.hostile.is_some() && self.peer_msgs >= self.hostile_after && ctx.ch.chance("op.hostile", 1, 2) {
            self.hostile_step(ctx);
            return;
        }
        self.peer_ts = match ctx.ch.weighted("ts.kind", &[12, 1, 1]) {
            0 => self.peer_ts.wrapping_add(ctx.ch.draw("ts.step", 40) as u32),
            1 => self.peer_ts.wrapping_add(*ctx.ch.pick("ts.step", &[0xFF_FFFFu32, 0x100_0000, 0xFF_FFFE])),
            _ => ctx.ch.draw("ts.step", 1 << 32) as u32,
        };
        let ts = self.peer_ts;
        let connected = self.model.app.is_some();
        let w_connect = if connected { 1 } else { 14 };
        let w_stream = if connected { if self.long_history { 30 } else { 5 } } else { 2 };
        let bulk = self.mode == EMode::C17;
        let kind = ctx.ch.weighted(
            "op.kind",
            &[
                if self.long_history { 0 } else { 1 }, // 0 end of script
                w_connect,                   // 1 connect
                if self.long_history && ctx.run_index % 2 == 0 { 120 } else { w_stream }, // 2 createStream
                w_stream,                    // 3 publish
                w_stream - 1,                // 4 play
                2,                           // 5 closeStream
                2,                           // 6 deleteStream
                if bulk { 16 } else { 5 },   // 7 audio/video
                2,                           // 8 setDataFrame
                if bulk { 4 } else { 2 },    // 9 ping request
                1,                           // 10 unknown command
                if bulk { 4 } else { 1 },    // 11 window ack
                1,                           // 12 set chunk size
                if bulk { 4 } else { 1 },    // 13 other control / data
                if self.long_history { 0 } else { 1 }, // 14 malformed argument lists
            ],
        );
        let (m, csid): (RefMsg, u32) = match kind {
            0 => {
                self.peer_open = false;
                ctx.tr(|| "  peer: end of script".to_string());
                return;
            }
            1 => {
                let app = *ctx.ch.pick("op.arg.app", &APPS);
                let mut props = vec![("app".to_string(), AV::s(app))];
                if ctx.ch.chance("op.arg.extra", 1, 2) {
                    props.push(("flashVer".to_string(), AV::s("FMLE/3.0")));
                    props.push(("tcUrl".to_string(), AV::s("rtmp://h/live")));
                }
                if ctx.ch.chance("op.arg.objenc", 1, 3) {
                    props.push(("objectEncoding".to_string(), AV::Num(*ctx.ch.pick("op.arg.objencv", &[0.0f64, 3.0]))));
                }
                (msg::command(0, ts, "connect", draw_tx(ctx), AV::Obj(props), vec![]), 3)
            }
            2 => (msg::command(0, ts, "createStream", draw_tx(ctx), AV::Null, vec![]), 3),
            3 => {
                let sid = self.pick_sid(ctx);
                let key = *ctx.ch.pick("op.arg.key", &KEYS);
                let mode = *ctx.ch.pick("op.arg.mode", &["live", "record", "append", "LIVE"]);
                (msg::command(sid, ts, "publish", draw_tx(ctx), AV::Null, vec![AV::s(key), AV::s(mode)]), 8)
            }
            4 => {
                let sid = self.pick_sid(ctx);
                let key = *ctx.ch.pick("op.arg.key", &KEYS);
                let mut args = vec![AV::s(key)];
                let extra = ctx.ch.draw("op.arg.nargs", 4);
                if extra >= 1 {
                    args.push(AV::Num(*ctx.ch.pick("op.arg.start", &[-2.0f64, -1.0, 0.0, 12.0, -5.0])));
                }
                if extra >= 2 {
                    args.push(AV::Num(*ctx.ch.pick("op.arg.dur", &[-1.0f64, 30.0])));
                }
                if extra >= 3 {
                    args.push(AV::Bool(ctx.ch.chance("op.arg.reset", 1, 2)));
                }
                (msg::command(sid, ts, "play", 0.0, AV::Null, args), 8)
            }
            5 | 6 => {
                let sid = self.pick_sid(ctx);
                let on = if ctx.ch.chance("op.arg.on0", 1, 3) { 0 } else { sid };
                // the argument is an AMF0 number: also values that are congruent to a live id
                // modulo 2^32 (or far negative) -- they name no stream at all
                let arg = match ctx.ch.weighted("op.arg.sidargk", &[12, 1, 1, 1]) {
                    0 => sid as f64,
                    1 => {
                        ctx.probe("e.stream_arg_congruent_mod_2^32");
                        sid as f64 + 4294967296.0 * (1 + ctx.ch.draw("op.arg.sidn", 3)) as f64
                    }
                    2 => sid as f64 - 4294967296.0,
                    _ => *ctx.ch.pick("op.arg.sidodd", &[4294967296.0f64, 1e20, -1.0, f64::NAN, f64::INFINITY]),
                };
                (msg::command(on, ts, if kind == 5 { "closeStream" } else { "deleteStream" }, 0.0, AV::Null, vec![AV::Num(arg)]), 3)
            }
            7 => {
                let sid = self.pick_sid(ctx);
                let len = match ctx.ch.weighted("op.arg.lenk", &[4, 1, 2, if bulk { 3 } else { 1 }]) {
                    0 => ctx.ch.range("op.arg.len", 1, 40),
                    1 => 0,
                    2 => ctx.ch.range("op.arg.len", 100, 700),
                    _ => ctx.ch.range("op.arg.len", 2000, 20000),
                } as usize;
                let seed = ctx.ch.sub_seed("bytes.seed");
                let audio = ctx.ch.chance("op.arg.audio", 1, 2);
                (msg::media(if audio { 8 } else { 9 }, sid, ts, expand_bytes(seed, len)), if audio { 4 } else { 6 })
            }
            8 => {
                let sid = self.pick_sid(ctx);
                let obj = Self::metadata_object(ctx);
                (msg::data(sid, ts, &[AV::s("@setDataFrame"), AV::s("onMetaData"), obj]), 4)
            }
            9 => {
                // "every ping request": also one that arrives on another message stream than 0
                // (user control messages SHOULD use stream 0, peers are not obliged to)
                let mut m = msg::user_control(ts, 6, ctx.ch.draw("op.arg.pingts", 1 << 32) as u32, None);
                if ctx.ch.chance("op.arg.pingsid", 1, 5) {
                    m.msid = self.pick_sid(ctx);
                    if m.msid != 0 {
                        ctx.probe("peer.ping_on_nonzero_stream");
                    }
                }
                (m, 2)
            }
            10 => {
                let name = *ctx.ch.pick("op.arg.cmd", &["releaseStream", "FCPublish", "FCUnpublish", "getStreamLength", "foo"]);
                (msg::command(0, ts, name, ctx.ch.draw("op.arg.tx", 9) as f64, AV::Null, vec![AV::s("key")]), 3)
            }
            11 => {
                let w = self.draw_window(ctx);
                ctx.probe("e.window_announced");
                (msg::window_ack(ts, w), 2)
            }
            12 => {
                let size = *ctx.ch.pick("op.arg.csz", &[128u32, 1, 2, 64, 300, 4096, 0x7FFF_FFFF]);
                let m = msg::set_chunk_size(ts, size);
                let f = self.enc.best_format(2, &m);
                ctx.tr(|| format!("  peer: SetChunkSize {}", size));
                self.push(&m, 2, f);
                self.enc.chunk_size = size;
                self.peer_msgs += 1;
                return;
            }
            13 => match ctx.ch.draw("op.arg.otherk", 5) {
                0 => (msg::ack(ts, ctx.ch.draw("op.arg.seq", 1 << 32) as u32), 2),
                1 => {
                    // SetPeerBandwidth: any size (also far below the acknowledgement window), any limit type
                    let size = match ctx.ch.weighted("op.arg.bwk", &[2, 3, 1]) {
                        0 => 2_500_000u32,
                        1 => ctx.ch.range("op.arg.bw", 1, 3000) as u32,
                        _ => 0xFFFF_FFFF,
                    };
                    let mut p = size.to_be_bytes().to_vec();
                    p.push(ctx.ch.draw("op.arg.bwlimit", 3) as u8);
                    ctx.probe("peer.set_peer_bandwidth");
                    (RefMsg { type_id: 6, msid: 0, ts, payload: p }, 2)
                }
                2 => (msg::user_control(ts, 3, 1, Some(3000)), 2),
                3 => (msg::data(self.pick_sid(ctx), ts, &[AV::s("onMetaData"), AV::Obj(vec![("width".to_string(), AV::Num(1.0))])]), 4),
                _ => (msg::user_control(ts, 7, 55, None), 2),
            },
            _ => {
                // malformed argument lists (valid AMF0, wrong shapes)
                let sid = self.pick_sid(ctx);
                ctx.probe("e.malformed_argument_list");
                match ctx.ch.draw("op.arg.malk", 12) {
                    0 => (msg::command(sid, ts, "publish", 0.0, AV::Null, vec![]), 8),
                    1 => (msg::command(sid, ts, "publish", 0.0, AV::Null, vec![AV::s("key")]), 8),
                    2 => (msg::command(sid, ts, "publish", 0.0, AV::Null, vec![AV::s("key"), AV::s("bogus")]), 8),
                    3 => (msg::command(sid, ts, "publish", 0.0, AV::Null, vec![AV::Num(1.0), AV::s("live")]), 8),
                    4 => (msg::command(sid, ts, "play", 0.0, AV::Null, vec![]), 8),
                    5 => (msg::command(sid, ts, "play", 0.0, AV::Null, vec![AV::Num(3.0)]), 8),
                    6 => (msg::command(0, ts, "closeStream", 0.0, AV::Null, if ctx.ch.chance("op.arg.e", 1, 2) { vec![] } else { vec![AV::s("x")] }), 3),
                    7 => (msg::command(0, ts, "deleteStream", 0.0, AV::Null, if ctx.ch.chance("op.arg.e", 1, 2) { vec![] } else { vec![AV::Null] }), 3),
                    8 => (msg::data(sid, ts, &[AV::s("@setDataFrame"), AV::s("onMetaData"), AV::Null]), 4),
                    9 => (msg::data(sid, ts, &[AV::s("@setDataFrame")]), 4),
                    10 => (msg::data(sid, ts, &[AV::s("@setDataFrame"), AV::s("onMetaData")]), 4),
                    _ => (msg::data(sid, ts, &[]), 4),
                }
            }
        };
        // foreign-encoder choice of header format: random legal
        let mut m = m;
        // commands usually travel on message stream 0; nothing obliges a peer to (the handlers
        // of connect, createStream, closeStream, deleteStream, _result, _error take the stream
        // they act on from their arguments)
        if m.type_id == 20 && m.msid == 0 && ctx.ch.chance("op.arg.cmdsid", 1, 10) {
            m.msid = self.pick_sid(ctx);
            if m.msid != 0 {
                ctx.probe("peer.command_on_nonzero_stream");
            }
        }
        if (m.type_id == 20 || m.type_id == 18) && ctx.ch.chance("op.arg.amf3flag", 1, 10) {
            ctx.probe("peer.amf3_flagged_message");
            if m.type_id == 20 {
                m.type_id = 17;
                m.payload.insert(0, 0);
            } else {
                m.type_id = 15;
            }
        }
        let csid = if ctx.ch.chance("op.arg.csidalt", 1, 6) { *ctx.ch.pick("op.arg.csid", &[3u32, 64, 320, 9]) } else { csid };
        let legal = self.enc.legal_formats(csid, &m);
        let opts: Vec<u8> = (0..4u8).rev().filter(|f| legal[*f as usize]).collect();
        let f = opts[ctx.ch.draw("op.arg.fmt", opts.len() as u64) as usize];
        ctx.tr(|| format!("  peer: {:?} [{}] csid {} fmt {}", classify(&m).kind(), m.brief(), csid, f));
        ctx.ev(110, m.type_id as u64, m.payload.len() as u64);
        self.push_interleaved(ctx, &m, csid, f);
        self.peer_msgs += 1;
    }

    fn draw_window(&mut self, ctx: &mut Ctx) -> u32 {
        if self.mode == EMode::C17 && self.srv.c.ack.window().is_none() {
            // small windows exhaustively across run indices, then sampled
            let i = ctx.run_index;
            if i % 4 != 3 {
                return 1 + (i / 4 % 64) as u32;
            }
        }
        match ctx.ch.weighted("op.arg.wink", &[4, 3, 2, 1, 1]) {
            0 => ctx.ch.range("op.arg.win", 1, 64) as u32,
            1 => ctx.ch.range("op.arg.win", 65, 3000) as u32,
            2 => ctx.ch.range("op.arg.win", 3001, 100_000) as u32,
            3 => 0xFFFF_FFFF,
            _ => ctx.ch.range("op.arg.win", 1, 0xFFFF_FFFF) as u32,
        }
    }

    fn model_fail(&mut self, ctx: &mut Ctx, class: String, msg: String) -> RunResult {
        if self.mode == EMode::C09 {
            Err(viol(ctx, &class, msg))
        } else {
            self.model_alive = false;
            Ok(())
        }
    }

    fn deliver(&mut self, ctx: &mut Ctx, empty_call: bool) -> RunResult {
        let seg = if empty_call { Vec::new() } else { self.link.next_segment(ctx) };
        ctx.sched(1, empty_call as u64, Ctx::bucket_len(seg.len()));
        ctx.ev(111, seg.len() as u64, self.link.head);
        ctx.trt(|now| format!("  t={}ns deliver {} bytes (offset ..{})", now, seg.len(), self.link.head));
        let r = self.srv.handle_input(ctx, &seg)?;
        match r {
            Err(e) => {
                ctx.tr(|| format!("    handle_input -> Err({})", e));
                ctx.probe("e.session_closed_by_error");
                self.closed_check(ctx, &e.to_string())
            }
            Ok(out) => {
                if !self.model_alive {
                    return Ok(());
                }
                self.alive_after_error(ctx)?;
                let inputs: Vec<SIn> = out.in_msgs.iter().map(|(m, _)| classify(m)).collect();
                let mut outs = match tracked(&out) {
                    Some(o) => o,
                    None => {
                        self.model_alive = false;
                        return Ok(());
                    }
                };
                // status notifications produced while handling input are neither required nor
                // forbidden by the statement (they matter only as the answer to accept_request)
                outs.retain(|o| !matches!(o, SOut::OnStatus { .. }));
                for o in outs.iter() {
                    ctx.tr(|| format!("    -> {:?}", o));
                }
                match sm::match_call(&self.model, &inputs, &outs) {
                    Some(m2) => {
                        self.model = m2;
                        ctx.state(self.model.state_hash());
                        Ok(())
                    }
                    None => {
                        let (class, msg) = sm::diagnose(&self.model, &inputs, &outs);
                        self.model_fail(ctx, class, msg)
                    }
                }
            }
        }
    }

    /// handle_input returned Err: permitted only if the failing call's input contains a message
    /// on which the statement permits it.
    fn closed_check(&mut self, ctx: &mut Ctx, err: &str) -> RunResult {
        if self.mode != EMode::C09 || !self.model_alive {
            return Ok(());
        }
        // the input tap decoded the messages the failing call completed
        let last_in: Vec<SIn> = self.srv.c.last_in.iter().map(classify).collect();
        let permitted = last_in.iter().any(|i| i.err_permitted());
        if !permitted {
            let v = viol(
                ctx,
                "unexpected-session-error",
                format!("handle_input returned Err({}) although every message in the call is well-formed: {:?}", err, last_in.iter().map(|i| i.kind()).collect::<Vec<_>>()),
            );
            if self.post_err != 1 {
                return Err(v);
            }
            if self.deferred.is_none() {
                self.deferred = Some(v);
            }
        }
        // Life after an error: the statement does not make an error terminal, and a message the
        // session gave up on must not have moved anything ("refused without side effects" is
        // the rule for everything that is refused).  Go on when the failing call completed
        // exactly one message, nothing else is buffered and no acknowledgement can have been
        // serialized and lost with the discarded results.  The model does not move.
        let single = last_in.len() == 1 && self.srv.c.in_tap_clean() && !self.srv.c.peer_window_seen;
        let class_ok = single
            && (self.post_err == 1
                || matches!(
                    last_in[0],
                    SIn::Connect { app: None, .. } | SIn::Publish { .. } | SIn::Play { .. } | SIn::Close { sid: None } | SIn::Delete { sid: None } | SIn::Meta { meta: None, .. }
                ));
        if class_ok && ctx.ch.chance("op.arg.goon", 1, 2) {
            self.srv.c.closed = false;
            self.srv.c.check_ack = false;
            if self.post_err == 0 {
                self.post_err = 1;
            }
            ctx.probe("e.continued_after_error");
        }
        Ok(())
    }

    fn alive_after_error(&mut self, ctx: &mut Ctx) -> RunResult {
        if self.post_err == 1 {
            self.post_err = 2;
            ctx.probe("e.alive_after_error");
            if let Some(v) = self.deferred.take() {
                if self.mode == EMode::C09 {
                    return Err(v);
                }
                self.model_alive = false;
            }
        }
        Ok(())
    }

    /// A refusal while nothing has succeeded since the first error is reported only once the
    /// session has shown that it is alive.
    fn fail_or_defer(&mut self, ctx: &mut Ctx, ok: bool, class: String, msg: String) -> RunResult {
        if !ok && self.post_err == 1 {
            if self.deferred.is_none() {
                self.deferred = Some(viol(ctx, &class, msg));
            }
            return Ok(());
        }
        self.model_fail(ctx, class, msg)
    }
}

impl World {
    /// The scripted application actor makes one call.
    fn app_step(&mut self, ctx: &mut Ctx) -> RunResult {
        self.app_calls += 1;
        ctx.sched(3, 0, 0);
        let pending: Vec<u32> = self.model.pending.keys().copied().collect();
        let used: Vec<u32> = self.model.issued_ids.iter().filter(|i| !self.model.pending.contains_key(i)).copied().collect();
        let w_pending = if pending.is_empty() { 0 } else { 10 };
        let kind = ctx.ch.weighted("op.kind", &[w_pending, if pending.is_empty() { 0 } else { 2 }, 2, 1, 3, 2, 1]);
        let pick_id = |ctx: &mut Ctx, kind_w: &[u32]| -> u32 {
            match ctx.ch.weighted("op.arg.idk", kind_w) {
                0 if !pending.is_empty() => pending[ctx.ch.draw("op.arg.id", pending.len() as u64) as usize],
                1 if !used.is_empty() => used[ctx.ch.draw("op.arg.id", used.len() as u64) as usize],
                _ => *ctx.ch.pick("op.arg.id", &[999u32, 4_000_000_000, 17]),
            }
        };
        match kind {
            0 | 2 => {
                // accept: pending (kind 0) or stale / never issued (kind 2)
                let id = if kind == 0 { pick_id(ctx, &[1, 0, 0]) } else { pick_id(ctx, &[0, 3, 2]) };
                ctx.trt(|now| format!("  t={}ns app: accept_request({})", now, id));
                ctx.ev(112, id as u64, 0);
                let sid = match self.model.pending.get(&id) {
                    Some(sm::Pending::Publish { sid, .. }) | Some(sm::Pending::Play { sid, .. }) => *sid,
                    _ => 0,
                };
                // an id the model does not hold as pending (never issued, spent, or in limbo after
                // a failed accept): should the call succeed all the same, any stream this server
                // created is as good as another -- the model, not the transcript, judges that
                let msids: Vec<u32> = if self.model.pending.contains_key(&id) { vec![sid] } else { self.loose_streams(id) };
                let r = self.srv.app_results(ctx, &|_| Want::OnStreams { type_ids: &[4, 18, 20], msids: msids.clone() }, |s| s.accept_request(id));
                let (ok, outs) = match &r {
                    Ok(out) => (true, tracked(out)),
                    Err(_) => (false, Some(Vec::new())),
                };
                if !ok {
                    ctx.probe("e.app_call_refused");
                }
                if !self.model_alive {
                    return Ok(());
                }
                let outs = match outs {
                    Some(o) => o,
                    None => {
                        self.model_alive = false;
                        return Ok(());
                    }
                };
                if ok {
                    self.alive_after_error(ctx)?;
                    if !self.model_alive {
                        return Ok(());
                    }
                }
                match self.model.accept(id, ok, &outs) {
                    Ok(m2) => {
                        self.model = m2;
                        ctx.state(self.model.state_hash());
                        Ok(())
                    }
                    Err((class, msg)) => self.fail_or_defer(ctx, ok, class.to_string(), msg),
                }
            }
            1 | 3 => {
                let id = if kind == 1 { pick_id(ctx, &[1, 0, 0]) } else { pick_id(ctx, &[0, 3, 2]) };
                ctx.trt(|now| format!("  t={}ns app: reject_request({})", now, id));
                ctx.ev(113, id as u64, 0);
                let sid = match self.model.pending.get(&id) {
                    Some(sm::Pending::Publish { sid, .. }) | Some(sm::Pending::Play { sid, .. }) => *sid,
                    _ => 0,
                };
                let msids: Vec<u32> = if self.model.pending.contains_key(&id) { vec![sid] } else { self.loose_streams(id) };
                let r = self.srv.app_results(ctx, &|_| Want::OnStreams { type_ids: &[20], msids: msids.clone() }, |s| s.reject_request(id, "NetConnection.Connect.Rejected", "no"));
                let (ok, outs) = match &r {
                    Ok(out) => (true, tracked(out)),
                    Err(_) => (false, Some(Vec::new())),
                };
                if !ok {
                    ctx.probe("e.app_call_refused");
                }
                if !self.model_alive {
                    return Ok(());
                }
                let outs = match outs {
                    Some(o) => o,
                    None => {
                        self.model_alive = false;
                        return Ok(());
                    }
                };
                if ok {
                    self.alive_after_error(ctx)?;
                    if !self.model_alive {
                        return Ok(());
                    }
                }
                match self.model.reject(id, ok, &outs) {
                    Ok(m2) => {
                        self.model = m2;
                        Ok(())
                    }
                    Err((class, msg)) => self.fail_or_defer(ctx, ok, class.to_string(), msg),
                }
            }
            4 => {
                // send media / metadata on any stream id
                let sid = self.pick_sid(ctx);
                let ts = ctx.ch.draw("ts.step", 1 << 32) as u32;
                let len = ctx.ch.range("op.arg.len", 0, 400) as usize;
                let seed = ctx.ch.sub_seed("bytes.seed");
                let data = expand_bytes(seed, len);
                let droppable = ctx.ch.chance("op.arg.drop", 1, 2);
                ctx.ev(114, sid as u64, len as u64);
                let r = match ctx.ch.draw("op.arg.sendk", 3) {
                    0 => {
                        ctx.trt(|now| format!("  t={}ns app: send_video_data(sid {}, {} bytes, droppable {})", now, sid, len, droppable));
                        self.srv.app_packet(ctx, Want::Media { type_id: 9, msid: sid, ts, len, hash: payload_hash(&data), droppable }, |s| s.send_video_data(sid, Bytes::from(data.clone()), RtmpTimestamp::new(ts), droppable))
                    }
                    1 => {
                        ctx.trt(|now| format!("  t={}ns app: send_audio_data(sid {}, {} bytes, droppable {})", now, sid, len, droppable));
                        self.srv.app_packet(ctx, Want::Media { type_id: 8, msid: sid, ts, len, hash: payload_hash(&data), droppable }, |s| s.send_audio_data(sid, Bytes::from(data.clone()), RtmpTimestamp::new(ts), droppable))
                    }
                    _ => {
                        ctx.trt(|now| format!("  t={}ns app: send_metadata(sid {})", now, sid));
                        let mut md = StreamMetadata::new();
                        md.video_width = Some(640);
                        md.encoder = Some("sim".to_string());
                        self.srv.app_packet(ctx, Want::OnStreams { type_ids: &[18], msids: vec![sid] }, |s| s.send_metadata(sid, &md))
                    }
                };
                if r.is_err() {
                    ctx.probe("e.app_call_refused");
                }
                Ok(())
            }
            5 => {
                let sid = self.pick_sid(ctx);
                ctx.trt(|now| format!("  t={}ns app: finish_playing({})", now, sid));
                ctx.ev(115, sid as u64, 0);
                let r = self.srv.app_packet(ctx, Want::OnStreams { type_ids: &[20], msids: vec![sid] }, |s| s.finish_playing(sid));
                if r.is_ok() {
                    ctx.probe("e.finish_playing_ok");
                } else {
                    ctx.probe("e.app_call_refused");
                }
                if self.model_alive {
                    self.model = self.model.finish_playing(sid, r.is_ok());
                }
                Ok(())
            }
            _ => {
                ctx.trt(|now| format!("  t={}ns app: send_ping_request()", now));
                ctx.ev(116, 0, 0);
                let _ = self.srv.app_packet(ctx, Want::OnStreams { type_ids: &[4], msids: vec![0] }, |s| s.send_ping_request().map(|(p, _)| p));
                Ok(())
            }
        }
    }
}

pub fn build(ctx: &mut Ctx, mode: EMode) -> Result<World, Violation> {
    let order_seed = ctx.ch.sub_seed("amf.order");
    crate::worlds::install_amf_order(order_seed);
    let mut cfg = ServerSessionConfig::new();
    cfg.chunk_size = *ctx.ch.pick("cfg.schunk", &[4096u32, 128, 1, 2, 50, 0x7FFF_FFFF]);
    cfg.window_ack_size = *ctx.ch.pick("cfg.swin", &[1_073_741_824u32, 1, 5000, 0xFFFF_FFFF]);
    cfg.send_on_bw_done_message_on_start = !ctx.ch.chance("cfg.nobwdone", 1, 3);
    let off_ms = if mode == EMode::C18 {
        let d = ctx.ch.draw("clock.delta", 2000);
        match ctx.ch.weighted("clock.off", &[3, 2, 2, 2, 2, 2]) {
            0 => 0,
            1 => (1u64 << 24) - 1 - d,
            2 => (1u64 << 24) + d,
            3 => (1u64 << 32) - 1 - d,
            4 => (1u64 << 32) + d,
            _ => ctx.ch.draw("clock.offv", 1u64 << 33),
        }
    } else {
        0
    };
    let time_scale = ctx.ch.weighted("cfg.timescale", &[3, 2, 2, 1, 1]) as u64;
    let cfg_copy = cfg.clone();
    let (mut srv, _wire0) = match SrvNode::new(ctx, cfg, 2, NodeClock::new(0)) {
        Ok(x) => x,
        Err((_, e)) => return Err(Violation::new(format!("{}/session/constructor-error", ctx.prop), format!("ServerSession::new returned Err({})", e))),
    };
    srv.c.clock = NodeClock::new(off_ms);
    if mode == EMode::C17 {
        srv.c.check_ack = true;
    }
    let mut link = Link::new(Link::draw_mode(ctx));
    link.small_budget = 5000;
    let mut hdr_tap = RefChunkDecoder::new(false);
    hdr_tap.record_chunks = true;
    Ok(World {
        mode,
        srv,
        link,
        hdr_tap,
        enc: RefChunkEncoder::new(),
        model: ServerModel::new(),
        model_alive: true,
        time_scale,
        peer_ts: 0,
        peer_msgs: 0,
        peer_open: true,
        app_calls: 0,
        sent_bytes: 0,
        cfg: cfg_copy,
        order_seed,
        off_ms,
        hostile: None,
        history: Vec::new(),
        hostile_after: 0,
        long_history: false,
        post_err: 0,
        deferred: None,
    })
}

pub fn run(ctx: &mut Ctx, mode: EMode) -> RunResult {
    ctx.world("E");
    ctx.step_cap = 30_000;
    let mut w = build(ctx, mode)?;
    let mut max_msgs = match mode {
        EMode::C17 => 5 + ctx.ch.draw("op.count", 60) as usize,
        _ => 5 + ctx.ch.draw("op.count", if ctx.tier_thorough { 116 } else { 36 }) as usize,
    };
    let mut max_app = if ctx.tier_thorough { 90 } else { 30 };
    if mode == EMode::C09 && ctx.ch.chance("cfg.longhistory", 1, 60) {
        // hundreds of requests on one connection: request and stream ids pass 255
        w.long_history = true;
        max_msgs = 400 + ctx.ch.draw("op.count", 400) as usize;
        max_app = 600;
        ctx.probe("e.long_history");
    }
    let mut jumps_left = if mode == EMode::C18 { 2 } else { 0 };
    loop {
        if w.srv.c.closed || !ctx.step() {
            break;
        }
        let mut enabled: Vec<u8> = Vec::new();
        if w.peer_open && w.peer_msgs < max_msgs {
            enabled.push(0);
        }
        if w.link.available() > 0 {
            enabled.push(1);
            enabled.push(1); // deliveries twice as likely
        }
        if w.app_calls < max_app && (!w.model.pending.is_empty() || (mode != EMode::C17 && ctx.ch.chance("sched.app", 1, 5))) {
            enabled.push(2);
        }
        if mode == EMode::C17 && ctx.ch.chance("op.emptycall", 1, 40) {
            enabled.push(3);
        }
        if enabled.is_empty() {
            break;
        }
        if jumps_left > 0 && ctx.ch.chance("fault.kind", 1, 25) {
            jumps_left -= 1;
            let back = ctx.ch.chance("clock.jumpdir", 1, 2);
            let mag_ms = match ctx.ch.weighted("clock.jump", &[2, 2, 2, 1]) {
                0 => ctx.ch.draw("clock.jumpv", 5_000),
                1 => 1 << 24,
                2 => 1u64 << 32,
                _ => ctx.ch.draw("clock.jumpv", 1u64 << 33),
            } as i128;
            w.srv.c.clock.jump_ns += mag_ms * 1_000_000 * if back { -1 } else { 1 };
            ctx.fault(if back { "clock_jump_backward" } else { "clock_jump_forward" });
            ctx.tr(|| format!("    FAULT clock jump {}{} ms", if back { "-" } else { "+" }, mag_ms));
        }
        let pick = enabled[ctx.ch.draw("sched.pick", enabled.len() as u64) as usize];
        advance_time(ctx, w.time_scale);
        match pick {
            0 => {
                ctx.sched(0, 0, 0);
                w.peer_step(ctx);
            }
            1 => w.deliver(ctx, false)?,
            2 => w.app_step(ctx)?,
            _ => w.deliver(ctx, true)?,
        }
    }
    ctx.nontrivial = w.peer_msgs >= 3;
    match mode {
        EMode::C09 => {
            if w.model_alive {
                ctx.probe("e.model_followed_to_end");
            }
            if w.model.issued_ids.iter().any(|t| *t >= 256) {
                ctx.probe("e.request_id_past_255");
            }
            if w.model.issued_sids.iter().any(|t| *t >= 256) {
                ctx.probe("e.stream_id_past_255");
            }
            if w.model.streams.values().any(|s| matches!(s, sm::St::Publishing(_))) {
                ctx.probe("e.reached_publishing");
            }
            if w.model.streams.values().any(|s| matches!(s, sm::St::Playing(_))) {
                ctx.probe("e.reached_playing");
            }
        }
        EMode::C17 => {
            ctx.probe_n("e.acks_checked", w.srv.c.ack.acks_seen);
            ctx.nontrivial = w.srv.c.ack.calls_with_window > 0;
        }
        EMode::C18 => {
            transcript::check(ctx, &w.srv.c)?;
            let up = w.srv.c.clock.uptime_ms(ctx.now_ns);
            if up >= 1 << 24 {
                ctx.probe("d.uptime_past_2^24ms");
            }
            if up >= 1u64 << 32 {
                ctx.probe("d.uptime_past_2^32ms");
            }
        }
    }
    Ok(())
}

// ---------------------------------------------------------------------------------------------
// C15, server session part

pub enum SetupStep {
    Bytes(Vec<u8>),
    Accept(u32),
}

fn results_to_strings(out: &CallOut<ServerSessionEvent>) -> Vec<String> {
    let mut res = Vec::new();
    let n_pk = out.order.iter().filter(|o| **o == 0).count();
    let tap_ok = out.decoded.len() == n_pk;
    let (mut pi, mut ei) = (0, 0);
    for o in out.order.iter() {
        if *o == 0 {
            if tap_ok {
                let m = &out.decoded[pi];
                if m.type_id != 3 {
                    res.push(crate::worlds::c15::msg_string(m));
                }
            } else {
                res.push("undecodable packet".to_string());
            }
            pi += 1;
        } else {
            res.push(match &out.events[ei] {
                ServerSessionEvent::UnhandleableAmf0Command { command_name, transaction_id, command_object, additional_values } => format!(
                    "UnhandleableAmf0Command {:?} tx={:016x} obj={} args=[{}]",
                    command_name,
                    transaction_id.to_bits(),
                    crate::worlds::c15::canon_amf(command_object),
                    crate::worlds::c15::canon_amf_list(additional_values)
                ),
                other => format!("{:?}", other),
            });
            ei += 1;
        }
    }
    res
}

impl World {
    fn setup_send(&mut self, ctx: &mut Ctx, steps: &mut Vec<SetupStep>, m: RefMsg, csid: u32) -> RunResult {
        let f = self.enc.best_format(csid, &m);
        let mut out = Vec::new();
        self.enc.encode_message(&mut out, csid, &m, f);
        steps.push(SetupStep::Bytes(out.clone()));
        self.link.push(&out);
        self.deliver(ctx, false)
    }

    fn setup_accept(&mut self, ctx: &mut Ctx, steps: &mut Vec<SetupStep>, id: u32) -> RunResult {
        steps.push(SetupStep::Accept(id));
        let r = self.srv.app_results(ctx, &|_| Want::OnStreams { type_ids: &[], msids: vec![] }, |s| s.accept_request(id));
        if let Ok(out) = &r {
            if let Some(outs) = tracked(out) {
                if let Ok(m2) = self.model.accept(id, true, &outs) {
                    self.model = m2;
                }
            }
        }
        Ok(())
    }
}

pub fn run_c15(ctx: &mut Ctx) -> RunResult {
    use crate::worlds::c15::{compare_sessions, four_partitions, CallRec};
    ctx.world("E-differential");
    let mut g = build(ctx, EMode::C18)?; // generator instance: the model only steers the script
    g.link.mode = crate::link::SegMode::All;
    g.off_ms = ctx.ch.draw("clock.offv", 1u64 << 33);
    // fixed whole-packet set-up phase bringing the session into a PRNG-chosen state
    let depth = ctx.ch.draw("cfg.setup", 8);
    let play = ctx.ch.chance("cfg.play", 1, 2);
    let mut steps: Vec<SetupStep> = Vec::new();
    if depth >= 1 {
        g.setup_send(ctx, &mut steps, msg::command(0, 0, "connect", 1.0, AV::Obj(vec![("app".to_string(), AV::s("live"))]), vec![]), 3)?;
    }
    if depth >= 2 {
        g.setup_accept(ctx, &mut steps, 0)?;
    }
    if depth >= 3 {
        g.setup_send(ctx, &mut steps, msg::command(0, 0, "createStream", 2.0, AV::Null, vec![]), 3)?;
    }
    if depth >= 4 {
        let m = if play { msg::command(1, 0, "play", 0.0, AV::Null, vec![AV::s("key")]) } else { msg::command(1, 0, "publish", 0.0, AV::Null, vec![AV::s("key"), AV::s("live")]) };
        g.setup_send(ctx, &mut steps, m, 8)?;
    }
    if depth >= 5 {
        g.setup_accept(ctx, &mut steps, 1)?;
    }
    if depth >= 6 {
        let w = *ctx.ch.pick("op.arg.win", &[1u32, 7, 64, 1000]);
        g.setup_send(ctx, &mut steps, msg::window_ack(0, w), 2)?;
    }
    if g.srv.c.closed {
        return Ok(());
    }
    // the stream under test: peer messages that are not delivered to the generator instance
    let n = 3 + ctx.ch.draw("op.count", 10) as usize;
    for _ in 0..n {
        g.peer_step(ctx);
        if !g.peer_open {
            break;
        }
    }
    let mut flat = g.link.next_segment(ctx);
    let n_mut = ctx.ch.weighted("fault.kind", &[3, 2, 1, 1]);
    if n_mut > 0 && !flat.is_empty() {
        for _ in 0..n_mut {
            let kind = ctx.ch.draw("fault.arg.kind", crate::link::HOSTILE_KINDS.len() as u64) as usize;
            let hist = flat.clone();
            crate::link::mutate(ctx, kind, &mut flat, &hist);
        }
        ctx.probe("c15.mutated_session_stream");
    }
    if flat.len() >= 20 {
        ctx.nontrivial = true;
    }
    ctx.probe("c15.server_session_stream");
    ctx.ev_bytes(130, &flat);
    let pieces = vec![flat.clone()];
    let parts = four_partitions(ctx, &pieces);
    let mut results: Vec<(&'static str, Vec<CallRec>)> = Vec::new();
    for (name, lens) in parts.iter() {
        crate::worlds::install_amf_order(g.order_seed);
        let (mut node, _) = match SrvNode::new(ctx, g.cfg.clone(), 2, NodeClock::new(0)) {
            Ok(x) => x,
            Err(_) => return Ok(()),
        };
        node.c.clock = NodeClock::new(g.off_ms); // frozen: simulated time does not advance here
        let mut dead = false;
        for st in steps.iter() {
            match st {
                SetupStep::Bytes(b) => {
                    if node.handle_input(ctx, b)?.is_err() {
                        dead = true;
                        break;
                    }
                }
                SetupStep::Accept(id) => {
                    let _ = node.app_results(ctx, &|_| Want::OnStreams { type_ids: &[], msids: vec![] }, |s| s.accept_request(*id));
                }
            }
        }
        if dead {
            return Ok(());
        }
        let mut calls = Vec::new();
        let mut pos = 0usize;
        for &n in lens.iter() {
            let n = n.min(flat.len() - pos);
            let seg = &flat[pos..pos + n];
            let r = node.handle_input(ctx, seg)?;
            ctx.steps += 1;
            match r {
                Ok(out) => calls.push(CallRec { start: pos, end: pos + n, outs: results_to_strings(&out), err: None }),
                Err(e) => {
                    calls.push(CallRec { start: pos, end: pos + n, outs: Vec::new(), err: Some(format!("{:?}", std::mem::discriminant(&e)) + &e.to_string()) });
                    break;
                }
            }
            pos += n;
            if pos >= flat.len() {
                break;
            }
        }
        ctx.ev(131, calls.len() as u64, calls.iter().map(|c| c.outs.len() as u64).sum());
        results.push((name, calls));
    }
    compare_sessions(ctx, "server-differential", &results)
}

/// C03: the valid workload of this world with a hostile peer mixed in; safety oracle only.
pub fn run_hostile(ctx: &mut Ctx) -> RunResult {
    ctx.world("E-hostile");
    ctx.step_cap = 30_000;
    let mut w = build(ctx, EMode::C18)?;
    w.model_alive = true;
    let kinds: Vec<usize> = (0..crate::link::HOSTILE_KINDS.len()).filter(|_| ctx.ch.chance("cfg.fault", 1, 2)).collect();
    let rate = *ctx.ch.pick("cfg.faultrate", &[3u64, 6, 2]);
    w.hostile = Some((kinds, rate, 0));
    let max_msgs = 5 + ctx.ch.draw("op.count", 30) as usize;
    // hostile bytes arrive after a valid prefix of arbitrary length
    w.hostile_after = ctx.ch.draw("cfg.hostile_after", max_msgs as u64) as usize;
    loop {
        if w.srv.c.closed || !ctx.step() {
            break;
        }
        let mut enabled: Vec<u8> = Vec::new();
        if w.peer_open && w.peer_msgs < max_msgs {
            enabled.push(0);
        }
        if w.link.available() > 0 {
            enabled.push(1);
            enabled.push(1);
        }
        if w.app_calls < 20 && (!w.model.pending.is_empty() || ctx.ch.chance("sched.app", 1, 3)) {
            enabled.push(2);
        }
        if enabled.is_empty() {
            break;
        }
        let pick = enabled[ctx.ch.draw("sched.pick", enabled.len() as u64) as usize];
        match pick {
            0 => {
                ctx.sched(0, 0, 0);
                w.peer_step(ctx);
            }
            1 => w.deliver(ctx, false)?,
            _ => w.app_step(ctx)?,
        }
    }
    ctx.nontrivial = w.peer_msgs >= 2;
    if w.srv.c.closed {
        ctx.probe("c03.e.session_closed_by_error");
    } else {
        ctx.probe("c03.e.session_survived");
    }
    Ok(())
}
