//! C03 -- no network input can panic, overflow, hang or exhaust memory.  The "fault" is the
//! peer: hostile bytes arrive in the middle of live scenarios, after arbitrary valid prefixes,
//! at arbitrary cuts.  Oracle = the safety oracle only (returns; no panic incl. arithmetic
//! overflow; no abort / hang (worker supervision); attributed heap bound).

use crate::engine::{Ctx, NodeMem, RunResult};
use crate::link::{self, Link};
use crate::refs::chunk::{RefChunkDecoder, RefChunkEncoder, RefMsg};
use crate::worlds::c15::{drive_deser, Outcome};
use crate::worlds::hostile;

fn draw_csid(ctx: &mut Ctx) -> u32 {
    match ctx.ch.weighted("op.arg.csidk", &[5, 2, 1]) {
        0 => 2 + ctx.ch.draw("op.arg.csid", 6) as u32,
        1 => *ctx.ch.pick("op.arg.csid", &[63u32, 64, 319, 320, 65599]),
        _ => ctx.ch.range("op.arg.csid", 2, 65599) as u32,
    }
}

/// Encode hostile messages into a well-formed chunk stream, one piece per message.
pub fn encode_hostile_stream(ctx: &mut Ctx, n_max: usize, msid_pool: &[u32]) -> Vec<Vec<u8>> {
    let mut enc = RefChunkEncoder::new();
    let mut pieces = Vec::new();
    let n = 1 + ctx.ch.draw("op.count", n_max as u64) as usize;
    for _ in 0..n {
        let m: RefMsg = hostile::draw_message(ctx, msid_pool);
        let csid = draw_csid(ctx);
        let legal = enc.legal_formats(csid, &m);
        let opts: Vec<u8> = (0..4u8).rev().filter(|f| legal[*f as usize]).collect();
        let f = opts[ctx.ch.draw("op.arg.fmt", opts.len() as u64) as usize];
        ctx.tr(|| format!("  peer msg [{}] csid {} fmt {} body {:02x?}", m.brief(), csid, f, &m.payload[..m.payload.len().min(24)]));
        let mut out = Vec::new();
        enc.encode_message(&mut out, csid, &m, f);
        if m.type_id == 1 && m.payload.len() >= 4 {
            let v = u32::from_be_bytes([m.payload[0], m.payload[1], m.payload[2], m.payload[3]]) & 0x7FFF_FFFF;
            if v >= 1 {
                enc.chunk_size = v;
            }
        }
        ctx.ev_bytes(60, &out);
        pieces.push(out);
    }
    pieces
}

/// Apply link faults (hostile-peer kinds) to some pieces; returns how many fired.
pub fn inject_link_faults(ctx: &mut Ctx, pieces: &mut Vec<Vec<u8>>) -> usize {
    let enabled: Vec<usize> = (0..link::HOSTILE_KINDS.len())
        .filter(|_| ctx.ch.chance("cfg.fault", 1, 2))
        .collect();
    if enabled.is_empty() {
        return 0;
    }
    let rate = *ctx.ch.pick("cfg.faultrate", &[4u64, 8, 2]);
    let mut fired = 0;
    let mut history: Vec<u8> = Vec::new();
    for p in pieces.iter_mut() {
        if fired < 3 && ctx.ch.chance("fault.kind", 1, rate) {
            let kind = enabled[ctx.ch.draw("fault.arg.kind", enabled.len() as u64) as usize];
            link::mutate(ctx, kind, p, &history);
            fired += 1;
        }
        if history.len() < 4096 {
            history.extend_from_slice(p);
        }
    }
    fired
}

pub fn seg_lens_for(ctx: &mut Ctx, pieces: &[Vec<u8>]) -> Vec<usize> {
    let mode = Link::draw_mode(ctx);
    let mut link = Link::new(mode);
    let mut dec = RefChunkDecoder::new(false);
    dec.record_chunks = true;
    for p in pieces {
        link.push(p);
        let _ = dec.feed(p);
    }
    for c in dec.chunks.iter() {
        link.note_header(c.off, c.hdr_len);
    }
    let mut lens = Vec::new();
    while link.available() > 0 {
        let seg = link.next_segment(ctx);
        ctx.sched(1, 1, Ctx::bucket_len(seg.len()));
        lens.push(seg.len());
    }
    lens
}

/// World B: chunk deserializer + message decoder.
pub fn run_b(ctx: &mut Ctx) -> RunResult {
    ctx.world("B-hostile");
    let garbage = ctx.ch.chance("cfg.garbage", 1, 8);
    let mut pieces = if garbage {
        let n = ctx.ch.range("op.arg.len", 1, 600) as usize;
        ctx.probe("c03.garbage_stream");
        vec![ctx.ch.bytes("bytes.seed", n)]
    } else {
        encode_hostile_stream(ctx, 10, &[0, 1, 2, 0xFFFF_FFFF])
    };
    let fired = inject_link_faults(ctx, &mut pieces);
    if fired > 0 || pieces.len() >= 2 {
        ctx.nontrivial = true;
    }
    let lens = seg_lens_for(ctx, &pieces);
    let stream = pieces.concat();
    ctx.ev_bytes(61, &stream);
    let (msgs, outcome, _) = drive_deser(ctx, &stream, &lens, 1, "deser", |ctx, p, mem| {
        // the message decoder is reached without a session in front of it
        let r = mem.call(ctx, 0, || p.to_rtmp_message())?;
        match r {
            Ok(_) => ctx.probe("c03.b.message_decoded"),
            Err(_) => ctx.probe("c03.b.message_decode_err"),
        }
        Ok(())
    })?;
    ctx.ev(62, msgs.len() as u64, 0);
    if let Outcome::Err(_) = outcome {
        ctx.probe("c03.b.deser_err");
    }
    Ok(())
}

pub fn run(ctx: &mut Ctx) -> RunResult {
    match ctx.ch.weighted("cfg.world", &[3, 1, 3, 3]) {
        0 => run_b(ctx),
        1 => crate::worlds::c::run_c03_handshake(ctx),
        2 => crate::worlds::e::run_hostile(ctx),
        _ => crate::worlds::f::run_hostile(ctx),
    }
}
