//! C17 -- acknowledgements account for every received byte (refinement against AckModel):
//! World D (two real sessions announcing their configured windows to each other), Worlds
//! E / F (scripted peers announcing windows: small W exhaustively, re-announcements mid-stream),
//! and a few long-haul runs per batch (one session receiving more than 4 GiB, so that windows
//! near 2^31 / 2^32 are actually reached and total byte counts pass 2^32).

use crate::engine::{Ctx, RunResult, Violation};
use crate::refs::chunk::{RefChunkEncoder, RefMsg};
use crate::refs::msg;
use crate::worlds::sess::{CliNode, NodeClock, SrvNode};
use crate::worlds::{d, e, f};
use rml_rtmp::sessions::{ClientSessionConfig, ServerSessionConfig};

const LONG_HAUL_EVERY: u64 = 20_000;

pub fn run(ctx: &mut Ctx) -> RunResult {
    if ctx.run_index % LONG_HAUL_EVERY == 7 {
        return long_haul(ctx);
    }
    match ctx.run_index % 3 {
        0 => d::run(ctx, d::DMode::C17),
        1 => e::run(ctx, e::EMode::C17),
        _ => f::run(ctx, f::FMode::C17),
    }
}

enum Node {
    S(SrvNode),
    C(CliNode),
}

impl Node {
    fn feed(&mut self, ctx: &mut Ctx, bytes: &[u8]) -> Result<bool, Violation> {
        // Ok(true) = call succeeded, Ok(false) = session returned Err (closed)
        match self {
            Node::S(n) => Ok(n.handle_input(ctx, bytes)?.is_ok()),
            Node::C(n) => Ok(n.handle_input(ctx, bytes)?.is_ok()),
        }
    }
    fn acks(&self) -> u64 {
        match self {
            Node::S(n) => n.c.ack.acks_seen,
            Node::C(n) => n.c.ack.acks_seen,
        }
    }
}

/// One session, one announced window, more than 4 GiB of valid input in 1 MiB calls.
fn long_haul(ctx: &mut Ctx) -> RunResult {
    ctx.world("long-haul");
    ctx.step_cap = 20_000;
    let stratum = ctx.run_index / LONG_HAUL_EVERY;
    let server = stratum % 2 == 0;
    let w: u32 = match (stratum / 2) % 5 {
        0 => 0xFFFF_FFFF,
        1 => 3_000_000_000,
        2 => 0x8000_0001,
        3 => 2_500_000,
        _ => *ctx.ch.pick("op.arg.win", &[0x7FFF_FFFFu32, 0x8000_0000, 0xFFFF_FFFE, 1_000_000_000, 4_000_000_000]),
    };
    ctx.tr(|| format!("  long haul: {} session, window {}", if server { "server" } else { "client" }, w));
    ctx.sched(0, server as u64, w as u64);
    ctx.nontrivial = true;
    crate::worlds::install_amf_order(0);
    let mut node = if server {
        match SrvNode::new(ctx, ServerSessionConfig::new(), 2, NodeClock::new(0)) {
            Ok((mut n, _)) => {
                n.c.check_ack = true;
                Node::S(n)
            }
            Err((_, e)) => return Err(Violation::new("C17/session/constructor-error", e.to_string())),
        }
    } else {
        match CliNode::new(ctx, ClientSessionConfig::new(), 1, NodeClock::new(0)) {
            Ok(mut n) => {
                n.c.check_ack = true;
                Node::C(n)
            }
            Err(e) => return Err(Violation::new("C17/session/constructor-error", e.to_string())),
        }
    };
    let mut enc = RefChunkEncoder::new();
    let mut setup = Vec::new();
    let scs = msg::set_chunk_size(0, 0x7FFF_FFFF);
    enc.encode_message(&mut setup, 2, &scs, 0);
    enc.chunk_size = 0x7FFF_FFFF;
    let wa = msg::window_ack(0, w);
    enc.encode_message(&mut setup, 2, &wa, 1);
    if !node.feed(ctx, &setup)? {
        return Ok(());
    }
    // bulk: an aggregate message (type 22) is valid input for either session in any state
    let size = 1usize << 20;
    let bulk = RefMsg { type_id: 22, msid: 1, ts: 0, payload: vec![0u8; size] };
    let mut first = Vec::new();
    enc.encode_message(&mut first, 6, &bulk, 0);
    let mut next = Vec::new();
    let f = enc.best_format(6, &bulk);
    enc.encode_message(&mut next, 6, &bulk, f);
    let total_target: u64 = (1u64 << 32) + (1u64 << 27) + ctx.ch.draw("op.arg.extra", 1 << 27);
    let mut fed: u64 = setup.len() as u64;
    let mut calls = 0u64;
    if !node.feed(ctx, &first)? {
        return Ok(());
    }
    fed += first.len() as u64;
    while fed < total_target {
        if !ctx.step() {
            break;
        }
        // mostly whole messages; sometimes a message split over two calls
        if ctx.ch.chance("link.seg", 1, 64) {
            let cut = 1 + ctx.ch.draw("link.len", (next.len() - 1) as u64) as usize;
            if !node.feed(ctx, &next[..cut])? || !node.feed(ctx, &next[cut..])? {
                return Ok(());
            }
        } else if !node.feed(ctx, &next)? {
            return Ok(());
        }
        fed += next.len() as u64;
        calls += 1;
    }
    ctx.ev(170, fed, node.acks());
    ctx.probe("c17.long_haul_run");
    ctx.probe_n("c17.long_haul_gib_fed", fed >> 30);
    if fed > u32::MAX as u64 {
        ctx.probe("c17.long_haul_total_past_2^32");
    }
    let _ = calls;
    Ok(())
}
