//! C17 -- acknowledgements account for every received byte (refinement against AckModel).

use crate::engine::{Ctx, RunResult};
use crate::worlds::d;

pub fn run(ctx: &mut Ctx) -> RunResult {
    d::run(ctx, d::DMode::C17)
}
