//! C17 -- acknowledgements account for every received byte (refinement against AckModel):
//! World D (two real sessions announcing their configured windows to each other) and Worlds
//! E / F (scripted peers announcing windows: small W exhaustively, re-announcements mid-stream).

use crate::engine::{Ctx, RunResult};
use crate::worlds::{d, e, f};

pub fn run(ctx: &mut Ctx) -> RunResult {
    match ctx.run_index % 3 {
        0 => d::run(ctx, d::DMode::C17),
        1 => e::run(ctx, e::EMode::C17),
        _ => f::run(ctx, f::FMode::C17),
    }
}
