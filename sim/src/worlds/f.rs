//! World F -- real `ClientSession` + scripted application actor against a scripted server peer
//! (reference encoder), with the ClientModel as oracle.  Serves C10, and the client side of
//! C17 / C18 / C15 / C03.

use crate::choice::expand_bytes;
use crate::engine::{Ctx, RunResult, Violation};
use crate::link::Link;
use crate::models::client::{self as cm, CIn, COut, CSt, ClientModel};
use crate::refs::amf0::AV;
use crate::refs::chunk::{RefChunkDecoder, RefChunkEncoder, RefMsg};
use crate::refs::msg::{self, Body};
use crate::worlds::d::advance_time;
use crate::worlds::e::expected_metadata;
use crate::worlds::sess::{payload_hash, CallOut, CliNode, NodeClock, Want};
use crate::worlds::transcript;
use bytes::Bytes;
use rml_rtmp::sessions::{ClientSessionConfig, ClientSessionEvent, PublishRequestType, StreamMetadata};
use rml_rtmp::time::RtmpTimestamp;

#[derive(Clone, Copy, PartialEq, Eq, Debug)]
pub enum FMode {
    C10,
    C17,
    C18,
}

fn integral_u32(n: f64) -> Option<u32> {
    if n >= 0.0 && n.fract() == 0.0 && n < 4294967296.0 {
        Some(n as u32)
    } else {
        None
    }
}

pub fn classify(m: &RefMsg) -> CIn {
    // peers may flag AMF0 commands / data as AMF3 (types 17 with a leading 0 byte, and 15)
    if m.type_id == 17 && m.payload.first() == Some(&0) {
        let mut n = m.clone();
        n.type_id = 20;
        n.payload.remove(0);
        return classify(&n);
    }
    if m.type_id == 15 {
        let mut n = m.clone();
        n.type_id = 18;
        return classify(&n);
    }
    match m.type_id {
        8 => CIn::Audio { msid: m.msid, len: m.payload.len(), hash: payload_hash(&m.payload), ts: m.ts },
        9 => CIn::Video { msid: m.msid, len: m.payload.len(), hash: payload_hash(&m.payload), ts: m.ts },
        4 => match msg::decode(m) {
            Ok(Body::UserControl { event: 6, a, .. }) => CIn::PingReq { ts: a },
            _ => CIn::Other,
        },
        18 => match msg::decode(m) {
            Ok(Body::Data(vals)) => {
                if vals.first().and_then(|v| v.as_str()) == Some("onMetaData") {
                    match vals.get(1) {
                        Some(o) if o.is_obj() => CIn::MetaData { msid: m.msid, meta: Some(expected_metadata(o)) },
                        _ => CIn::MetaData { msid: m.msid, meta: None },
                    }
                } else {
                    CIn::Other
                }
            }
            _ => CIn::Other,
        },
        20 => match msg::decode(m) {
            Ok(Body::Command { name, tx, args, .. }) => match name.as_str() {
                "_result" => CIn::Result { tx: integral_u32(tx), raw_tx: tx, sid: args.first().and_then(|v| v.as_num()).and_then(integral_u32) },
                "_error" => CIn::Error { tx: integral_u32(tx), raw_tx: tx },
                "onStatus" => CIn::OnStatus { code: args.first().and_then(|a| a.get("code")).and_then(|c| c.as_str()).map(|s| s.to_string()), msid: m.msid },
                _ => CIn::Other,
            },
            _ => CIn::Other,
        },
        _ => CIn::Other,
    }
}

fn event_to_out(e: &ClientSessionEvent) -> Option<COut> {
    Some(match e {
        ClientSessionEvent::ConnectionRequestAccepted => COut::ConnAccepted,
        ClientSessionEvent::ConnectionRequestRejected { .. } => COut::ConnRejected,
        ClientSessionEvent::PlaybackRequestAccepted => COut::PlayAccepted,
        ClientSessionEvent::PublishRequestAccepted => COut::PubAccepted,
        ClientSessionEvent::StreamMetadataReceived { metadata } => COut::Meta { meta: metadata.clone() },
        ClientSessionEvent::VideoDataReceived { data, timestamp } => COut::Video { len: data.len(), hash: payload_hash(&data[..]), ts: timestamp.value },
        ClientSessionEvent::AudioDataReceived { data, timestamp } => COut::Audio { len: data.len(), hash: payload_hash(&data[..]), ts: timestamp.value },
        ClientSessionEvent::UnknownTransactionResultReceived { transaction_id, .. } => COut::UnknownTx { tx: *transaction_id },
        _ => return None,
    })
}

fn packet_to_out(m: &RefMsg) -> Option<COut> {
    match m.type_id {
        8 | 9 => Some(COut::MediaPkt { type_id: m.type_id, msid: m.msid, ts: m.ts, len: m.payload.len(), hash: payload_hash(&m.payload) }),
        _ => match msg::decode(m) {
            Ok(Body::Command { name, tx, obj, args }) => match name.as_str() {
                "connect" => Some(COut::Connect { tx, app: obj.get("app").and_then(|v| v.as_str()).map(|s| s.to_string()), msid: m.msid }),
                "createStream" => Some(COut::CreateStream { tx, msid: m.msid }),
                "play" => Some(COut::Play { msid: m.msid, key: args.first().and_then(|v| v.as_str()).map(|s| s.to_string()) }),
                "publish" => Some(COut::Publish {
                    msid: m.msid,
                    key: args.first().and_then(|v| v.as_str()).map(|s| s.to_string()),
                    kind: args.get(1).and_then(|v| v.as_str()).map(|s| s.to_string()),
                }),
                "deleteStream" => Some(COut::DeleteStream { msid: m.msid, sid: args.first().and_then(|v| v.as_num()) }),
                _ => None,
            },
            Ok(Body::UserControl { event: 7, a, .. }) => Some(COut::PingResp { ts: a }),
            Ok(Body::Data(vals)) => {
                if vals.len() >= 3 && vals[0].as_str() == Some("@setDataFrame") && vals[1].as_str() == Some("onMetaData") && vals[2].is_obj() {
                    Some(COut::MetaPkt { msid: m.msid, meta: expected_metadata(&vals[2]) })
                } else {
                    None
                }
            }
            _ => None,
        },
    }
}

pub fn tracked(out: &CallOut<ClientSessionEvent>) -> Option<Vec<COut>> {
    let n_pk = out.order.iter().filter(|o| **o == 0).count();
    if out.decoded.len() != n_pk {
        return None;
    }
    let mut res = Vec::new();
    let (mut pi, mut ei) = (0, 0);
    for o in out.order.iter() {
        if *o == 0 {
            if let Some(x) = packet_to_out(&out.decoded[pi]) {
                res.push(x);
            }
            pi += 1;
        } else {
            if let Some(x) = event_to_out(&out.events[ei]) {
                res.push(x);
            }
            ei += 1;
        }
    }
    Some(res)
}

pub struct World {
    pub mode: FMode,
    pub cli: CliNode,
    pub link: Link,
    hdr_tap: RefChunkDecoder,
    pub enc: RefChunkEncoder,
    pub model: ClientModel,
    pub model_alive: bool,
    pub time_scale: u64,
    peer_ts: u32,
    peer_msgs: usize,
    peer_open: bool,
    app_calls: usize,
    connect_result_sent: bool,
    pub cfg: ClientSessionConfig,
    pub order_seed: u64,
    pub off_ms: u64,
    /// C03: hostile peer -- (enabled link fault kinds, 1/rate per packet, faults fired)
    pub hostile: Option<(Vec<usize>, u64, usize)>,
    history: Vec<u8>,
    hostile_after: usize,
    /// rare long histories: hundreds of requests, so that ids / counters grow large
    pub long_history: bool,
    /// life after an error: 0 = no call failed yet, 1 = a handle_input call failed and the run went
    /// on, nothing has succeeded since (the session may legitimately refuse everything from now
    /// on), 2 = a later call succeeded, so the session is alive and is judged as usual
    post_err: u8,
    /// what would have been reported for a refusal in phase 1, reported once phase 2 is reached
    deferred: Option<Violation>,
    /// transactions whose answer made a call fail: the peer does not mention them again
    dead_tx: std::collections::BTreeSet<u32>,
    /// (stream offset at which the message ends, transaction id) of every answer sent so far
    answers_sent: Vec<(u64, u32)>,
}

fn viol(ctx: &Ctx, class: &str, msg: String) -> Violation {
    Violation::new(format!("{}/clientmodel/{}", ctx.prop, class), msg)
}

const KEYS: [&str; 3] = ["key", "cam1", "str\u{e9}am"];

impl World {
    /// Like `push`, but a message of several chunks is sometimes interrupted by a complete
    /// other message on another chunk stream (RTMP allows the chunks of different chunk streams
    /// to interleave; the interloper is a ping request, which every state answers).
    fn push_interleaved(&mut self, ctx: &mut Ctx, m: &RefMsg, csid: u32, fmt: u8) {
        let chunk = self.enc.chunk_size.max(1) as usize;
        if m.payload.len() <= chunk || m.payload.len() / chunk > 5000 || !ctx.ch.chance("op.arg.interleave", 1, 5) {
            self.push(m, csid, fmt);
            return;
        }
        let total_chunks = (m.payload.len() + chunk - 1) / chunk;
        let at = 1 + ctx.ch.draw("op.arg.interleaveat", (total_chunks - 1) as u64) as usize;
        let mut out = Vec::new();
        let mut cur = crate::refs::chunk::EncCursor { csid, msg: m.clone(), sent: 0, started: false };
        self.enc.start(&mut out, &mut cur, fmt);
        let mut sent_chunks = 1usize;
        while !cur.done() {
            if sent_chunks == at {
                let ping = msg::user_control(m.ts, 6, ctx.ch.draw("op.arg.pingts", 1 << 32) as u32, None);
                let icsid = if csid == 2 { 7 } else { 2 };
                let f = self.enc.best_format(icsid, &ping);
                self.enc.encode_message(&mut out, icsid, &ping, f);
                ctx.probe("peer.interleaved_chunk_streams");
                ctx.tr(|| format!("  peer: (ping request on csid {} between chunks {} and {} of the next message)", icsid, at, at + 1));
            }
            self.enc.cont(&mut out, &mut cur);
            sent_chunks += 1;
        }
        self.push_raw(&out);
    }

    fn push(&mut self, m: &RefMsg, csid: u32, fmt: u8) {
        let mut out = Vec::new();
        self.enc.encode_message(&mut out, csid, m, fmt);
        self.push_raw(&out);
    }

    fn push_raw(&mut self, out: &[u8]) {
        let out = out.to_vec();
        self.link.push(&out);
        if self.history.len() < 4096 {
            self.history.extend_from_slice(&out);
        }
        self.hdr_tap.chunks.clear();
        let _ = self.hdr_tap.feed(&out);
        for c in self.hdr_tap.chunks.iter() {
            self.link.note_header(c.off, c.hdr_len);
        }
    }

    fn pick_tx(&mut self, ctx: &mut Ctx, want_connect: Option<bool>) -> f64 {
        let pending: Vec<u32> = self
            .model
            .pending
            .iter()
            .filter(|(_, p)| match want_connect {
                Some(c) => matches!(p, cm::Pend::Connect { .. }) == c,
                None => true,
            })
            .map(|(t, _)| *t)
            .collect();
        let stale: Vec<u32> = self.model.issued_tx.iter().filter(|t| !self.model.pending.contains_key(t) && !self.dead_tx.contains(t)).copied().collect();
        match ctx.ch.weighted("op.arg.txk", &[8, 2, 1, 1, 1]) {
            0 if !pending.is_empty() => pending[ctx.ch.draw("op.arg.tx", pending.len() as u64) as usize] as f64,
            1 if !stale.is_empty() => stale[ctx.ch.draw("op.arg.tx", stale.len() as u64) as usize] as f64,
            2 => 0.0,
            4 if !pending.is_empty() => {
                // a never-issued id that is congruent to an outstanding one modulo 2^32 (or just
                // very large): integral, so unambiguous, and certainly unknown
                ctx.probe("f.tx_congruent_mod_2^32");
                let k = pending[ctx.ch.draw("op.arg.tx", pending.len() as u64) as usize] as f64;
                k + 4294967296.0 * (1 + ctx.ch.draw("op.arg.txn", 3)) as f64
            }
            _ => *ctx.ch.pick("op.arg.tx", &[99.0f64, 4000.0, 4294967295.0, 4294967296.0]),
        }
    }

    fn pick_sid(&self, ctx: &mut Ctx) -> u32 {
        match (self.model.active, ctx.ch.weighted("op.arg.sidk", &[6, 2, 1])) {
            (Some(a), 0) => a,
            (_, 1) => *ctx.ch.pick("op.arg.sid", &[1u32, 2, 5]),
            (Some(a), _) => a.wrapping_add(1),
            _ => 0,
        }
    }

    /// C03: a hostile message in a well-formed chunk stream, optionally hit by a link fault.
    fn hostile_step(&mut self, ctx: &mut Ctx) {
        let pool: Vec<u32> = vec![0, 1, 2, self.pick_sid(ctx)];
        let m = crate::worlds::hostile::draw_message(ctx, &pool);
        let csid = 2 + ctx.ch.draw("op.arg.csid", 7) as u32;
        let legal = self.enc.legal_formats(csid, &m);
        let opts: Vec<u8> = (0..4u8).rev().filter(|f| legal[*f as usize]).collect();
        let f = opts[ctx.ch.draw("op.arg.fmt", opts.len() as u64) as usize];
        ctx.tr(|| format!("  hostile peer: [{}] csid {} fmt {} body {:02x?}", m.brief(), csid, f, &m.payload[..m.payload.len().min(24)]));
        let mut out = Vec::new();
        self.enc.encode_message(&mut out, csid, &m, f);
        if m.type_id == 1 && m.payload.len() >= 4 {
            let v = u32::from_be_bytes([m.payload[0], m.payload[1], m.payload[2], m.payload[3]]) & 0x7FFF_FFFF;
            if v >= 1 {
                self.enc.chunk_size = v;
            }
        }
        if let Some((kinds, rate, fired)) = self.hostile.clone() {
            if !kinds.is_empty() && fired < 3 && ctx.ch.chance("fault.kind", 1, rate) {
                let kind = kinds[ctx.ch.draw("fault.arg.kind", kinds.len() as u64) as usize];
                let hist = self.history.clone();
                crate::link::mutate(ctx, kind, &mut out, &hist);
                self.hostile = Some((kinds, rate, fired + 1));
            }
        }
        ctx.ev_bytes(140, &out);
        self.link.push(&out);
        if self.history.len() < 4096 {
            self.history.extend_from_slice(&out);
        }
        self.peer_msgs += 1;
    }

    fn peer_step(&mut self, ctx: &mut Ctx) {
        if self.hostile.is_some() && self.peer_msgs >= self.hostile_after && ctx.ch.chance("op.hostile", 1, 2) {
            self.hostile_step(ctx);
            return;
        }
        self.peer_ts = match ctx.ch.weighted("ts.kind", &[12, 1, 1]) {
            0 => self.peer_ts.wrapping_add(ctx.ch.draw("ts.step", 40) as u32),
            1 => self.peer_ts.wrapping_add(*ctx.ch.pick("ts.step", &[0xFF_FFFFu32, 0x100_0000, 0xFF_FFFE])),
            _ => ctx.ch.draw("ts.step", 1 << 32) as u32,
        };
        let ts = self.peer_ts;
        let bulk = self.mode == FMode::C17;
        let has_pending = !self.model.pending.is_empty();
        let playing = matches!(self.model.st, CSt::PlayRequested | CSt::Playing);
        let kind = ctx.ch.weighted(
            "op.kind",
            &[
                if self.long_history { 0 } else { 1 }, // 0 end of script
                if has_pending { 10 } else { 2 },      // 1 _result
                2,                                     // 2 _error
                4,                                     // 3 onStatus
                if bulk { 16 } else if playing { 6 } else { 2 }, // 4 audio / video
                2,                                     // 5 onMetaData
                if bulk { 4 } else { 2 },              // 6 ping request
                if bulk { 4 } else { 1 },              // 7 ping response / ack / other control
                if bulk { 4 } else { 1 },              // 8 window ack
                1,                                     // 9 set chunk size
                1,                                     // 10 other commands / data
                1,                                     // 11 malformed
            ],
        );
        let (m, csid): (RefMsg, u32) = match kind {
            0 => {
                self.peer_open = false;
                ctx.tr(|| "  peer: end of script".to_string());
                return;
            }
            1 => {
                let tx = self.pick_tx(ctx, None);
                let is_connect = integral_u32(tx).and_then(|t| self.model.pending.get(&t)).map(|p| matches!(p, cm::Pend::Connect { .. })).unwrap_or(false);
                if is_connect {
                    if self.connect_result_sent && self.mode == FMode::C10 {
                        // at most one of several pending connects is answered with _result
                        (msg::command(0, ts, "_error", tx, AV::Null, vec![msg::status_object("error", "NetConnection.Connect.Rejected", "busy")]), 3)
                    } else {
                        self.connect_result_sent = true;
                        let obj = AV::Obj(vec![("fmsVer".to_string(), AV::s("FMS/3,0,1,123")), ("capabilities".to_string(), AV::Num(31.0))]);
                        (msg::command(0, ts, "_result", tx, obj, vec![msg::status_object("status", "NetConnection.Connect.Success", "ok")]), 3)
                    }
                } else {
                    // createStream result (or a result nobody asked for), with / without a stream id
                    let args = match ctx.ch.weighted("op.arg.sidarg", &[8, 1, 1]) {
                        0 => vec![AV::Num(*ctx.ch.pick("op.arg.sid", &[1.0f64, 2.0, 5.0, 0.0, 16777216.0, 4294967295.0]))],
                        1 => vec![],
                        _ => vec![AV::s("one")],
                    };
                    (msg::command(0, ts, "_result", tx, AV::Null, args), 3)
                }
            }
            2 => {
                let only_connect = if ctx.ch.chance("op.arg.errconn", 3, 4) { Some(true) } else { None };
                let tx = self.pick_tx(ctx, only_connect);
                let args = if ctx.ch.chance("op.arg.noargs", 1, 4) { vec![] } else { vec![msg::status_object("error", "NetConnection.Connect.Rejected", "go away")] };
                (msg::command(0, ts, "_error", tx, AV::Null, args), 3)
            }
            3 => {
                let code = match self.model.st {
                    CSt::PlayRequested if ctx.ch.chance("op.arg.right", 3, 4) => "NetStream.Play.Start",
                    CSt::PublishRequested if ctx.ch.chance("op.arg.right", 3, 4) => "NetStream.Publish.Start",
                    _ => *ctx.ch.pick("op.arg.code", &["NetStream.Play.Reset", "NetStream.Play.Start", "NetStream.Publish.Start", "NetStream.Play.Stop", "NetStream.Data.Start", "bogus", "NETSTREAM.PLAY.START", "netstream.publish.start", "NetStream.Play.start", "NetStream.Publish.Start ", "NetStream.Play.Start.", "NetStream.Play", ""]),
                };
                let sid = self.pick_sid(ctx);
                (msg::command(sid, ts, "onStatus", 0.0, AV::Null, vec![msg::status_object("status", code, "d")]), 5)
            }
            4 => {
                let sid = self.pick_sid(ctx);
                let len = match ctx.ch.weighted("op.arg.lenk", &[4, 1, 2, if bulk { 3 } else { 1 }]) {
                    0 => ctx.ch.range("op.arg.len", 1, 40),
                    1 => 0,
                    2 => ctx.ch.range("op.arg.len", 100, 700),
                    _ => ctx.ch.range("op.arg.len", 2000, 20000),
                } as usize;
                let seed = ctx.ch.sub_seed("bytes.seed");
                let audio = ctx.ch.chance("op.arg.audio", 1, 2);
                if bulk && !playing {
                    // bulk bytes that are valid in every client state: an aggregate message
                    (msg::media(22, sid, ts, expand_bytes(seed, len)), 6)
                } else {
                    (msg::media(if audio { 8 } else { 9 }, sid, ts, expand_bytes(seed, len)), if audio { 4 } else { 6 })
                }
            }
            5 => {
                let sid = self.pick_sid(ctx);
                let mut props = Vec::new();
                let mask = ctx.ch.draw("op.arg.metamask", 64);
                for (i, n) in ["width", "height", "framerate", "audiosamplerate"].iter().enumerate() {
                    if mask >> i & 1 == 1 {
                        props.push((n.to_string(), AV::Num(ctx.ch.draw("op.arg.metav", 5000) as f64)));
                    }
                }
                if mask >> 4 & 1 == 1 {
                    props.push(("stereo".to_string(), AV::Bool(true)));
                }
                if mask >> 5 & 1 == 1 {
                    let enc = match ctx.ch.weighted("op.arg.enck", &[4, 1, 2]) {
                        0 => "enc".to_string(),
                        1 => String::new(),
                        _ => crate::worlds::hostile::long_mixed_string(ctx),
                    };
                    props.push(("encoder".to_string(), AV::Str(enc)));
                }
                let obj = if ctx.ch.chance("op.arg.ecma", 1, 4) { AV::Ecma(props) } else { AV::Obj(props) };
                (msg::data(sid, ts, &[AV::s("onMetaData"), obj]), 4)
            }
            6 => {
                let mut m = msg::user_control(ts, 6, ctx.ch.draw("op.arg.pingts", 1 << 32) as u32, None);
                if ctx.ch.chance("op.arg.pingsid", 1, 5) {
                    m.msid = self.pick_sid(ctx);
                    if m.msid != 0 {
                        ctx.probe("peer.ping_on_nonzero_stream");
                    }
                }
                (m, 2)
            }
            7 => match ctx.ch.draw("op.arg.otherk", 5) {
                0 => (msg::user_control(ts, 7, 77, None), 2),
                1 => (msg::ack(ts, ctx.ch.draw("op.arg.seq", 1 << 32) as u32), 2),
                2 => (msg::user_control(ts, 0, self.pick_sid(ctx), None), 2),
                3 => {
                    // SetPeerBandwidth: any size (also far below the acknowledgement window), any limit type
                    let size = match ctx.ch.weighted("op.arg.bwk", &[2, 3, 1]) {
                        0 => 2_500_000u32,
                        1 => ctx.ch.range("op.arg.bw", 1, 3000) as u32,
                        _ => 0xFFFF_FFFF,
                    };
                    let mut p = size.to_be_bytes().to_vec();
                    p.push(ctx.ch.draw("op.arg.bwlimit", 3) as u8);
                    ctx.probe("peer.set_peer_bandwidth");
                    (RefMsg { type_id: 6, msid: 0, ts, payload: p }, 2)
                }
                _ => (msg::user_control(ts, 4, 1, None), 2),
            },
            8 => {
                let w = self.draw_window(ctx);
                (msg::window_ack(ts, w), 2)
            }
            9 => {
                let size = *ctx.ch.pick("op.arg.csz", &[128u32, 1, 2, 64, 300, 4096, 0x7FFF_FFFF]);
                let m = msg::set_chunk_size(ts, size);
                let f = self.enc.best_format(2, &m);
                ctx.tr(|| format!("  peer: SetChunkSize {}", size));
                self.push(&m, 2, f);
                self.enc.chunk_size = size;
                self.peer_msgs += 1;
                return;
            }
            10 => match ctx.ch.draw("op.arg.otherk", 3) {
                0 => (msg::command(0, ts, "onBWDone", 0.0, AV::Null, vec![AV::Num(8192.0)]), 3),
                1 => (msg::data(self.pick_sid(ctx), ts, &[AV::s("|RtmpSampleAccess"), AV::Bool(false), AV::Bool(false)]), 4),
                _ => (msg::data(self.pick_sid(ctx), ts, &[AV::s("onStatus"), AV::Obj(vec![("code".to_string(), AV::s("NetStream.Data.Start"))])]), 4),
            },
            _ => {
                ctx.probe("f.malformed_message");
                match ctx.ch.draw("op.arg.malk", 6) {
                    0 => (msg::command(0, ts, "onStatus", 0.0, AV::Null, vec![]), 5),
                    1 => (msg::command(0, ts, "onStatus", 0.0, AV::Null, vec![AV::s("notanobject")]), 5),
                    2 => (msg::command(0, ts, "onStatus", 0.0, AV::Null, vec![AV::Obj(vec![("level".to_string(), AV::s("status"))])]), 5),
                    3 => (msg::data(self.pick_sid(ctx), ts, &[AV::s("onMetaData")]), 4),
                    4 => (msg::data(self.pick_sid(ctx), ts, &[AV::s("onMetaData"), AV::Num(1.0)]), 4),
                    _ => (msg::data(self.pick_sid(ctx), ts, &[]), 4),
                }
            }
        };
        // a message on which the session may legitimately give up (Err) ends the history: keep
        // most of them back so that histories grow long, but let some through
        if self.model.err_permitted(&classify(&m)) && !matches!(classify(&m), CIn::Other) && !ctx.ch.chance("op.arg.risky", 1, 8) {
            self.peer_msgs += 1;
            return;
        }
        let mut m = m;
        // commands usually travel on message stream 0; nothing obliges a peer to (the handlers
        // of connect, createStream, closeStream, deleteStream, _result, _error take the stream
        // they act on from their arguments)
        if m.type_id == 20 && m.msid == 0 && ctx.ch.chance("op.arg.cmdsid", 1, 10) {
            m.msid = self.pick_sid(ctx);
            if m.msid != 0 {
                ctx.probe("peer.command_on_nonzero_stream");
            }
        }
        if (m.type_id == 20 || m.type_id == 18) && ctx.ch.chance("op.arg.amf3flag", 1, 10) {
            ctx.probe("peer.amf3_flagged_message");
            if m.type_id == 20 {
                m.type_id = 17;
                m.payload.insert(0, 0);
            } else {
                m.type_id = 15;
            }
        }
        let csid = if ctx.ch.chance("op.arg.csidalt", 1, 6) { *ctx.ch.pick("op.arg.csid", &[3u32, 64, 320, 9]) } else { csid };
        let legal = self.enc.legal_formats(csid, &m);
        let opts: Vec<u8> = (0..4u8).rev().filter(|f| legal[*f as usize]).collect();
        let f = opts[ctx.ch.draw("op.arg.fmt", opts.len() as u64) as usize];
        ctx.tr(|| format!("  peer: {:?} [{}] csid {} fmt {}", classify(&m), m.brief(), csid, f));
        ctx.ev(120, m.type_id as u64, m.payload.len() as u64);
        self.push_interleaved(ctx, &m, csid, f);
        if let CIn::Result { tx: Some(t), .. } | CIn::Error { tx: Some(t), .. } = classify(&m) {
            self.answers_sent.push((self.link.head + self.link.available() as u64, t));
        }
        self.peer_msgs += 1;
    }

    fn draw_window(&mut self, ctx: &mut Ctx) -> u32 {
        if self.mode == FMode::C17 && self.cli.c.ack.window().is_none() {
            let i = ctx.run_index;
            if i % 4 != 3 {
                return 1 + (i / 4 % 64) as u32;
            }
        }
        match ctx.ch.weighted("op.arg.wink", &[4, 3, 2, 1, 1]) {
            0 => ctx.ch.range("op.arg.win", 1, 64) as u32,
            1 => ctx.ch.range("op.arg.win", 65, 3000) as u32,
            2 => ctx.ch.range("op.arg.win", 3001, 100_000) as u32,
            3 => 0xFFFF_FFFF,
            _ => ctx.ch.range("op.arg.win", 1, 0xFFFF_FFFF) as u32,
        }
    }

    fn model_fail(&mut self, ctx: &mut Ctx, class: String, msg: String) -> RunResult {
        if self.mode == FMode::C10 {
            Err(viol(ctx, &class, msg))
        } else {
            self.model_alive = false;
            Ok(())
        }
    }

    fn deliver(&mut self, ctx: &mut Ctx, empty_call: bool) -> RunResult {
        let seg = if empty_call { Vec::new() } else { self.link.next_segment(ctx) };
        ctx.sched(1, empty_call as u64, Ctx::bucket_len(seg.len()));
        ctx.ev(121, seg.len() as u64, self.link.head);
        ctx.trt(|now| format!("  t={}ns deliver {} bytes (offset ..{})", now, seg.len(), self.link.head));
        let r = self.cli.handle_input(ctx, &seg)?;
        match r {
            Err(e) => {
                ctx.tr(|| format!("    handle_input -> Err({})", e));
                ctx.probe("f.session_closed_by_error");
                if self.mode != FMode::C10 || !self.model_alive {
                    return Ok(());
                }
                let last_in: Vec<CIn> = self.cli.c.last_in.iter().map(classify).collect();
                let state_changers = last_in.iter().filter(|i| matches!(i, CIn::Result { .. } | CIn::Error { .. } | CIn::OnStatus { .. })).count();
                let permitted = last_in.iter().any(|i| self.model.err_permitted(i)) || state_changers >= 2 || (state_changers >= 1 && last_in.len() >= 2);
                if !permitted {
                    let v = viol(
                        ctx,
                        "unexpected-session-error",
                        format!("handle_input returned Err({}) in model state [{}] although nothing in the call permits it: {:?}", e, self.model.summary(), last_in),
                    );
                    if self.post_err != 1 {
                        return Err(v);
                    }
                    // nothing has succeeded since the first error: the session may be refusing
                    // everything; reported only if it turns out to be alive
                    if self.deferred.is_none() {
                        self.deferred = Some(v);
                    }
                }
                // Life after an error.  The statement does not make an error terminal: "each
                // server result, error or status advances exactly the transaction or request it
                // answers", also when the call that carried it failed.  Go on when the failing
                // call completed exactly one message, nothing else is buffered, and no
                // acknowledgement can have been serialized and lost with the discarded results.
                let single = last_in.len() == 1 && self.cli.c.in_tap_clean() && !self.cli.c.peer_window_seen;
                let class_ok = single && (self.post_err == 1 || matches!(last_in[0], CIn::Result { .. } | CIn::Error { .. } | CIn::OnStatus { .. } | CIn::Audio { .. } | CIn::Video { .. } | CIn::MetaData { .. }));
                // whether the failed answer has spent its transaction the statement does not say:
                // go on only if no further answer to the same transaction is already under way
                let head = self.link.head;
                let answered_again = match last_in.first() {
                    Some(CIn::Result { tx: Some(t), .. }) | Some(CIn::Error { tx: Some(t), .. }) => self.answers_sent.iter().any(|(end, t2)| t2 == t && *end > head),
                    _ => false,
                };
                if class_ok && !answered_again && ctx.ch.chance("op.arg.goon", 1, 2) {
                    self.cli.c.closed = false;
                    self.cli.c.check_ack = false;
                    if self.post_err == 0 {
                        self.post_err = 1;
                    }
                    if permitted {
                        // the answered transaction is spent (or not -- the statement does not
                        // say), nothing else may have moved
                        if let CIn::Result { tx: Some(t), .. } | CIn::Error { tx: Some(t), .. } = &last_in[0] {
                            if self.model.pending.remove(t).is_some() {
                                self.dead_tx.insert(*t);
                            }
                        }
                    }
                    ctx.probe("f.continued_after_error");
                }
                Ok(())
            }
            Ok(out) => {
                if !self.model_alive {
                    return Ok(());
                }
                self.alive_after_error(ctx)?;
                let inputs: Vec<CIn> = out.in_msgs.iter().map(|(m, _)| classify(m)).collect();
                let outs = match tracked(&out) {
                    Some(o) => o,
                    None => {
                        self.model_alive = false;
                        return Ok(());
                    }
                };
                for o in outs.iter() {
                    ctx.tr(|| format!("    -> {}", o.kind()));
                }
                match cm::match_call(&self.model, &inputs, &outs) {
                    Some(m2) => {
                        self.model = m2;
                        ctx.state(self.model.state_hash());
                        Ok(())
                    }
                    None => {
                        let (class, msg) = cm::diagnose(&self.model, &inputs, &outs);
                        self.model_fail(ctx, class, msg)
                    }
                }
            }
        }
    }

    /// A call succeeded: if the run went on after an error, the session has now shown that it is
    /// alive, and a refusal tolerated meanwhile is reported.
    fn alive_after_error(&mut self, ctx: &mut Ctx) -> RunResult {
        if self.post_err == 1 {
            self.post_err = 2;
            ctx.probe("f.alive_after_error");
            if let Some(v) = self.deferred.take() {
                if self.mode == FMode::C10 {
                    return Err(v);
                }
                self.model_alive = false;
            }
        }
        Ok(())
    }

    /// `ok` = the application call returned Ok.
    fn apply(&mut self, ctx: &mut Ctx, r: Result<ClientModel, (&'static str, String)>, ok: bool) -> RunResult {
        if !self.model_alive {
            return Ok(());
        }
        if ok {
            self.alive_after_error(ctx)?;
            if !self.model_alive {
                return Ok(());
            }
        }
        match r {
            Ok(m2) => {
                self.model = m2;
                ctx.state(self.model.state_hash());
                Ok(())
            }
            Err((class, msg)) => {
                if !ok && self.post_err == 1 {
                    if self.deferred.is_none() {
                        self.deferred = Some(viol(ctx, class, msg));
                    }
                    return Ok(());
                }
                self.model_fail(ctx, class.to_string(), msg)
            }
        }
    }

    fn app_step(&mut self, ctx: &mut Ctx) -> RunResult {
        self.app_calls += 1;
        ctx.sched(3, 0, 0);
        let st = self.model.st;
        // weights favour progress but every call is made in every state
        let w = |good: bool| if good { 10 } else { 1 };
        let kind = ctx.ch.weighted(
            "op.kind",
            &[
                w(st == CSt::Disconnected && (self.model.pending.is_empty() || (self.long_history && self.model.issued_tx.len() < 300))),
                w(st == CSt::Connected && self.model.pending.is_empty()),
                w(st == CSt::Connected && self.model.pending.is_empty()),
                w(st == CSt::Publishing),
                if matches!(st, CSt::Playing | CSt::PlayRequested) { 2 } else { 1 },
                if matches!(st, CSt::Publishing | CSt::PublishRequested) { 2 } else { 1 },
                1,
            ],
        );
        let sid_guess = self.model.active.unwrap_or(0);
        // outside C10 the model is only a guide (it stops following at the first disagreement
        // it is not asked to report): then any stream id a result ever mentioned is acceptable
        let alive = self.model_alive;
        let mut all_sids: Vec<u32> = self.cli.c.known_sids.clone();
        all_sids.push(sid_guess);
        let media_want = |type_id: u8, ts: u32, len: usize, hash: u64, droppable: bool| -> Want {
            if alive {
                Want::Media { type_id, msid: sid_guess, ts, len, hash, droppable }
            } else {
                Want::MediaOn { type_id, msids: all_sids.clone(), ts, len, hash, droppable }
            }
        };
        let stream_want = |type_ids: &'static [u8]| -> Want {
            if alive {
                Want::OnStreams { type_ids, msids: vec![sid_guess] }
            } else {
                Want::OnStreams { type_ids, msids: all_sids.clone() }
            }
        };
        match kind {
            0 => {
                let app = ctx.ch.pick("op.arg.app", &["live", "app2", "x/y"]).to_string();
                ctx.trt(|now| format!("  t={}ns app: request_connection({:?})", now, app));
                ctx.ev(122, 0, 0);
                let a2 = app.clone();
                let r = self.cli.app_result(ctx, Want::OnStreams { type_ids: &[20], msids: vec![0] }, |s| s.request_connection(a2));
                let (ok, outs) = match &r {
                    Ok(o) => (true, tracked(o)),
                    Err(_) => (false, Some(vec![])),
                };
                if !ok {
                    ctx.probe("f.app_call_refused");
                }
                match outs {
                    Some(o) => {
                        let res = self.model.request_connection(&app, ok, &o);
                        self.apply(ctx, res, ok)
                    }
                    None => {
                        self.model_alive = false;
                        Ok(())
                    }
                }
            }
            1 | 2 => {
                let play = kind == 1;
                let key = ctx.ch.pick("op.arg.key", &KEYS).to_string();
                let t = ctx.ch.draw("op.arg.pubtype", 3);
                let kind_s = ["live", "record", "append"][t as usize];
                ctx.trt(|now| format!("  t={}ns app: {}({:?})", now, if play { "request_playback" } else { "request_publishing" }, key));
                ctx.ev(123, play as u64, t);
                let k2 = key.clone();
                let r = self.cli.app_result(ctx, Want::OnStreams { type_ids: &[20], msids: vec![0] }, |s| {
                    if play {
                        s.request_playback(k2)
                    } else {
                        s.request_publishing(
                            k2,
                            match t {
                                0 => PublishRequestType::Live,
                                1 => PublishRequestType::Record,
                                _ => PublishRequestType::Append,
                            },
                        )
                    }
                });
                let (ok, outs) = match &r {
                    Ok(o) => (true, tracked(o)),
                    Err(_) => (false, Some(vec![])),
                };
                if !ok {
                    ctx.probe("f.app_call_refused");
                }
                match outs {
                    Some(o) => {
                        let res = self.model.request_stream(play, &key, kind_s, ok, &o);
                        self.apply(ctx, res, ok)
                    }
                    None => {
                        self.model_alive = false;
                        Ok(())
                    }
                }
            }
            3 => {
                // publish metadata / audio / video
                let ts = ctx.ch.draw("ts.step", 1 << 32) as u32;
                let len = ctx.ch.range("op.arg.len", 0, 400) as usize;
                let seed = ctx.ch.sub_seed("bytes.seed");
                let data = expand_bytes(seed, len);
                let droppable = ctx.ch.chance("op.arg.drop", 1, 2);
                ctx.ev(124, len as u64, ts as u64);
                let (r, want) = match ctx.ch.draw("op.arg.sendk", 3) {
                    0 => {
                        ctx.trt(|now| format!("  t={}ns app: publish_video_data({} bytes, ts {}, droppable {})", now, len, ts, droppable));
                        (
                            self.cli.app_result(ctx, media_want(9, ts, len, payload_hash(&data), droppable), |s| s.publish_video_data(Bytes::from(data.clone()), RtmpTimestamp::new(ts), droppable)),
                            COut::MediaPkt { type_id: 9, msid: sid_guess, ts, len, hash: payload_hash(&data) },
                        )
                    }
                    1 => {
                        ctx.trt(|now| format!("  t={}ns app: publish_audio_data({} bytes, ts {}, droppable {})", now, len, ts, droppable));
                        (
                            self.cli.app_result(ctx, media_want(8, ts, len, payload_hash(&data), droppable), |s| s.publish_audio_data(Bytes::from(data.clone()), RtmpTimestamp::new(ts), droppable)),
                            COut::MediaPkt { type_id: 8, msid: sid_guess, ts, len, hash: payload_hash(&data) },
                        )
                    }
                    _ => {
                        ctx.trt(|now| format!("  t={}ns app: publish_metadata()", now));
                        let mut md = StreamMetadata::new();
                        md.video_width = Some(ctx.ch.draw("op.arg.metav", 4000) as u32);
                        md.audio_is_stereo = Some(true);
                        md.encoder = Some("sim".to_string());
                        (self.cli.app_result(ctx, stream_want(&[18]), |s| s.publish_metadata(&md)), COut::MetaPkt { msid: sid_guess, meta: md.clone() })
                    }
                };
                let (ok, outs) = match &r {
                    Ok(o) => (true, tracked(o)),
                    Err(_) => (false, Some(vec![])),
                };
                if !ok {
                    ctx.probe("f.app_call_refused");
                } else {
                    ctx.probe("f.media_published");
                }
                match outs {
                    Some(o) => {
                        let res = self.model.publish_item(&want, ok, &o);
                        self.apply(ctx, res, ok)
                    }
                    None => {
                        self.model_alive = false;
                        Ok(())
                    }
                }
            }
            4 | 5 => {
                let play = kind == 4;
                ctx.trt(|now| format!("  t={}ns app: {}()", now, if play { "stop_playback" } else { "stop_publishing" }));
                ctx.ev(125, play as u64, 0);
                let r = self.cli.app_results(ctx, stream_want(&[20]), |s| if play { s.stop_playback() } else { s.stop_publishing() });
                let (ok, outs) = match &r {
                    Ok(o) => (true, tracked(o)),
                    Err(_) => (false, Some(vec![])),
                };
                match outs {
                    Some(o) => {
                        if !o.is_empty() {
                            ctx.probe("f.stop_emitted_delete");
                        }
                        ctx.tr(|| format!("    -> ok={} {:?}", ok, o));
                        let res = self.model.stop(play, ok, &o);
                        self.apply(ctx, res, ok)
                    }
                    None => {
                        self.model_alive = false;
                        Ok(())
                    }
                }
            }
            _ => {
                ctx.trt(|now| format!("  t={}ns app: send_ping_request()", now));
                ctx.ev(126, 0, 0);
                let _ = self.cli.app_packet(ctx, Want::OnStreams { type_ids: &[4], msids: vec![0] }, |s| s.send_ping_request().map(|(p, _)| p));
                Ok(())
            }
        }
    }
}

pub fn build(ctx: &mut Ctx, mode: FMode) -> Result<World, Violation> {
    let order_seed = ctx.ch.sub_seed("amf.order");
    crate::worlds::install_amf_order(order_seed);
    let mut cfg = ClientSessionConfig::new();
    cfg.chunk_size = *ctx.ch.pick("cfg.cchunk", &[4096u32, 128, 1, 2, 50, 0x7FFF_FFFF]);
    cfg.window_ack_size = *ctx.ch.pick("cfg.cwin", &[2_500_000u32, 1, 5000, 0xFFFF_FFFF]);
    if ctx.ch.chance("cfg.tcurl", 1, 3) {
        cfg.tc_url = Some("rtmp://h/live".to_string());
    }
    let off_ms = if mode == FMode::C18 {
        let d = ctx.ch.draw("clock.delta", 2000);
        match ctx.ch.weighted("clock.off", &[3, 2, 2, 2, 2, 2]) {
            0 => 0,
            1 => (1u64 << 24) - 1 - d,
            2 => (1u64 << 24) + d,
            3 => (1u64 << 32) - 1 - d,
            4 => (1u64 << 32) + d,
            _ => ctx.ch.draw("clock.offv", 1u64 << 33),
        }
    } else {
        0
    };
    let time_scale = ctx.ch.weighted("cfg.timescale", &[3, 2, 2, 1, 1]) as u64;
    let cfg_copy = cfg.clone();
    let mut cli = match CliNode::new(ctx, cfg, 1, NodeClock::new(0)) {
        Ok(c) => c,
        Err(e) => return Err(Violation::new(format!("{}/session/constructor-error", ctx.prop), format!("ClientSession::new returned Err({})", e))),
    };
    cli.c.clock = NodeClock::new(off_ms);
    if mode == FMode::C17 {
        cli.c.check_ack = true;
    }
    let mut link = Link::new(Link::draw_mode(ctx));
    link.small_budget = 5000;
    let mut hdr_tap = RefChunkDecoder::new(false);
    hdr_tap.record_chunks = true;
    Ok(World {
        mode,
        cli,
        link,
        hdr_tap,
        enc: RefChunkEncoder::new(),
        model: ClientModel::new(),
        model_alive: true,
        time_scale,
        peer_ts: 0,
        peer_msgs: 0,
        peer_open: true,
        app_calls: 0,
        connect_result_sent: false,
        cfg: cfg_copy,
        order_seed,
        off_ms,
        hostile: None,
        history: Vec::new(),
        hostile_after: 0,
        long_history: false,
        post_err: 0,
        deferred: None,
        dead_tx: std::collections::BTreeSet::new(),
        answers_sent: Vec::new(),
    })
}

pub fn run(ctx: &mut Ctx, mode: FMode) -> RunResult {
    ctx.world("F");
    ctx.step_cap = 30_000;
    let mut w = build(ctx, mode)?;
    let mut max_msgs = match mode {
        FMode::C17 => 5 + ctx.ch.draw("op.count", 60) as usize,
        _ => 5 + ctx.ch.draw("op.count", if ctx.tier_thorough { 116 } else { 36 }) as usize,
    };
    let mut max_app = if ctx.tier_thorough { 90 } else { 30 };
    if mode == FMode::C10 && ctx.ch.chance("cfg.longhistory", 1, 60) {
        // hundreds of requests on one connection: transaction ids pass 255
        w.long_history = true;
        max_msgs = 400 + ctx.ch.draw("op.count", 400) as usize;
        max_app = 600;
        ctx.probe("f.long_history");
    }
    let mut jumps_left = if mode == FMode::C18 { 2 } else { 0 };
    loop {
        if w.cli.c.closed || !ctx.step() {
            break;
        }
        let mut enabled: Vec<u8> = Vec::new();
        if w.peer_open && w.peer_msgs < max_msgs {
            enabled.push(0);
        }
        if w.link.available() > 0 {
            enabled.push(1);
            enabled.push(1);
        }
        if w.app_calls < max_app && (mode != FMode::C17 || w.model.st == CSt::Disconnected || ctx.ch.chance("sched.app", 1, 6)) {
            enabled.push(2);
        }
        if mode == FMode::C17 && ctx.ch.chance("op.emptycall", 1, 40) {
            enabled.push(3);
        }
        if enabled.is_empty() {
            break;
        }
        if jumps_left > 0 && ctx.ch.chance("fault.kind", 1, 25) {
            jumps_left -= 1;
            let back = ctx.ch.chance("clock.jumpdir", 1, 2);
            let mag_ms = match ctx.ch.weighted("clock.jump", &[2, 2, 2, 1]) {
                0 => ctx.ch.draw("clock.jumpv", 5_000),
                1 => 1 << 24,
                2 => 1u64 << 32,
                _ => ctx.ch.draw("clock.jumpv", 1u64 << 33),
            } as i128;
            w.cli.c.clock.jump_ns += mag_ms * 1_000_000 * if back { -1 } else { 1 };
            ctx.fault(if back { "clock_jump_backward" } else { "clock_jump_forward" });
            ctx.tr(|| format!("    FAULT clock jump {}{} ms", if back { "-" } else { "+" }, mag_ms));
        }
        let pick = enabled[ctx.ch.draw("sched.pick", enabled.len() as u64) as usize];
        advance_time(ctx, w.time_scale);
        match pick {
            0 => {
                ctx.sched(0, 0, 0);
                w.peer_step(ctx);
            }
            1 => w.deliver(ctx, false)?,
            2 => w.app_step(ctx)?,
            _ => w.deliver(ctx, true)?,
        }
    }
    ctx.nontrivial = w.peer_msgs >= 3;
    match mode {
        FMode::C10 => {
            if w.model_alive {
                ctx.probe("f.model_followed_to_end");
            }
            if w.model.issued_tx.iter().any(|t| *t >= 256) {
                ctx.probe("f.transaction_id_past_255");
            }
            match w.model.st {
                CSt::Playing => ctx.probe("f.reached_playing"),
                CSt::Publishing => ctx.probe("f.reached_publishing"),
                _ => {}
            }
        }
        FMode::C17 => {
            ctx.probe_n("f.acks_checked", w.cli.c.ack.acks_seen);
            ctx.nontrivial = w.cli.c.ack.calls_with_window > 0;
        }
        FMode::C18 => {
            transcript::check(ctx, &w.cli.c)?;
            let up = w.cli.c.clock.uptime_ms(ctx.now_ns);
            if up >= 1 << 24 {
                ctx.probe("d.uptime_past_2^24ms");
            }
            if up >= 1u64 << 32 {
                ctx.probe("d.uptime_past_2^32ms");
            }
        }
    }
    Ok(())
}

// ---------------------------------------------------------------------------------------------
// C15, client session part

pub enum SetupStep {
    Bytes(Vec<u8>),
    Connect,
    Play,
    Publish,
}

fn results_to_strings(out: &CallOut<ClientSessionEvent>) -> Vec<String> {
    let mut res = Vec::new();
    let n_pk = out.order.iter().filter(|o| **o == 0).count();
    let tap_ok = out.decoded.len() == n_pk;
    let (mut pi, mut ei) = (0, 0);
    for o in out.order.iter() {
        if *o == 0 {
            if tap_ok {
                let m = &out.decoded[pi];
                if m.type_id != 3 {
                    res.push(crate::worlds::c15::msg_string(m));
                }
            } else {
                res.push("undecodable packet".to_string());
            }
            pi += 1;
        } else {
            res.push(match &out.events[ei] {
                ClientSessionEvent::UnhandleableAmf0Command { command_name, transaction_id, command_object, additional_values } => format!(
                    "UnhandleableAmf0Command {:?} tx={:016x} obj={} args=[{}]",
                    command_name,
                    transaction_id.to_bits(),
                    crate::worlds::c15::canon_amf(command_object),
                    crate::worlds::c15::canon_amf_list(additional_values)
                ),
                ClientSessionEvent::UnknownTransactionResultReceived { transaction_id, command_object, additional_values } => format!(
                    "UnknownTransactionResultReceived tx={:016x} obj={} args=[{}]",
                    transaction_id.to_bits(),
                    crate::worlds::c15::canon_amf(command_object),
                    crate::worlds::c15::canon_amf_list(additional_values)
                ),
                other => format!("{:?}", other),
            });
            ei += 1;
        }
    }
    res
}

fn setup_app(node: &mut CliNode, ctx: &mut Ctx, st: &SetupStep) {
    let w = Want::OnStreams { type_ids: &[], msids: vec![] };
    match st {
        SetupStep::Connect => {
            let _ = node.app_result(ctx, w, |s| s.request_connection("live".to_string()));
        }
        SetupStep::Play => {
            let _ = node.app_result(ctx, w, |s| s.request_playback("key".to_string()));
        }
        SetupStep::Publish => {
            let _ = node.app_result(ctx, w, |s| s.request_publishing("key".to_string(), PublishRequestType::Live));
        }
        SetupStep::Bytes(_) => {}
    }
}

impl World {
    fn setup_send(&mut self, ctx: &mut Ctx, steps: &mut Vec<SetupStep>, m: RefMsg, csid: u32) -> RunResult {
        let f = self.enc.best_format(csid, &m);
        let mut out = Vec::new();
        self.enc.encode_message(&mut out, csid, &m, f);
        steps.push(SetupStep::Bytes(out.clone()));
        self.link.push(&out);
        self.deliver(ctx, false)
    }

    fn setup_call(&mut self, ctx: &mut Ctx, steps: &mut Vec<SetupStep>, st: SetupStep) {
        // mirror the call in the model so that the generator knows the state
        let (ok_model, _) = match st {
            SetupStep::Connect => {
                let r = self.cli.app_result(ctx, Want::OnStreams { type_ids: &[], msids: vec![] }, |s| s.request_connection("live".to_string()));
                match r.ok().as_ref().and_then(tracked) {
                    Some(o) => (self.model.request_connection("live", true, &o).ok(), ()),
                    None => (None, ()),
                }
            }
            SetupStep::Play => {
                let r = self.cli.app_result(ctx, Want::OnStreams { type_ids: &[], msids: vec![] }, |s| s.request_playback("key".to_string()));
                match r.ok().as_ref().and_then(tracked) {
                    Some(o) => (self.model.request_stream(true, "key", "live", true, &o).ok(), ()),
                    None => (None, ()),
                }
            }
            SetupStep::Publish => {
                let r = self.cli.app_result(ctx, Want::OnStreams { type_ids: &[], msids: vec![] }, |s| s.request_publishing("key".to_string(), PublishRequestType::Live));
                match r.ok().as_ref().and_then(tracked) {
                    Some(o) => (self.model.request_stream(false, "key", "live", true, &o).ok(), ()),
                    None => (None, ()),
                }
            }
            SetupStep::Bytes(_) => (None, ()),
        };
        if let Some(m) = ok_model {
            self.model = m;
        }
        steps.push(st);
    }
}

pub fn run_c15(ctx: &mut Ctx) -> RunResult {
    use crate::worlds::c15::{compare_sessions, four_partitions, CallRec};
    ctx.world("F-differential");
    let mut g = build(ctx, FMode::C18)?;
    g.link.mode = crate::link::SegMode::All;
    g.off_ms = ctx.ch.draw("clock.offv", 1u64 << 33);
    let depth = ctx.ch.draw("cfg.setup", 8);
    let play = ctx.ch.chance("cfg.play", 1, 2);
    let mut steps: Vec<SetupStep> = Vec::new();
    if depth >= 1 {
        g.setup_call(ctx, &mut steps, SetupStep::Connect);
    }
    if depth >= 2 {
        let obj = AV::Obj(vec![("fmsVer".to_string(), AV::s("FMS/3,0,1,123"))]);
        g.setup_send(ctx, &mut steps, msg::command(0, 0, "_result", 1.0, obj, vec![msg::status_object("status", "NetConnection.Connect.Success", "ok")]), 3)?;
        g.connect_result_sent = true;
    }
    if depth >= 3 {
        g.setup_call(ctx, &mut steps, if play { SetupStep::Play } else { SetupStep::Publish });
    }
    if depth >= 4 {
        g.setup_send(ctx, &mut steps, msg::command(0, 0, "_result", 2.0, AV::Null, vec![AV::Num(1.0)]), 3)?;
    }
    if depth >= 5 {
        let code = if play { "NetStream.Play.Start" } else { "NetStream.Publish.Start" };
        g.setup_send(ctx, &mut steps, msg::command(1, 0, "onStatus", 0.0, AV::Null, vec![msg::status_object("status", code, "d")]), 5)?;
    }
    if depth >= 6 {
        let w = *ctx.ch.pick("op.arg.win", &[1u32, 7, 64, 1000]);
        g.setup_send(ctx, &mut steps, msg::window_ack(0, w), 2)?;
    }
    if g.cli.c.closed {
        return Ok(());
    }
    let n = 3 + ctx.ch.draw("op.count", 10) as usize;
    for _ in 0..n {
        g.peer_step(ctx);
        if !g.peer_open {
            break;
        }
    }
    let mut flat = g.link.next_segment(ctx);
    let n_mut = ctx.ch.weighted("fault.kind", &[3, 2, 1, 1]);
    if n_mut > 0 && !flat.is_empty() {
        for _ in 0..n_mut {
            let kind = ctx.ch.draw("fault.arg.kind", crate::link::HOSTILE_KINDS.len() as u64) as usize;
            let hist = flat.clone();
            crate::link::mutate(ctx, kind, &mut flat, &hist);
        }
        ctx.probe("c15.mutated_session_stream");
    }
    if flat.len() >= 20 {
        ctx.nontrivial = true;
    }
    ctx.probe("c15.client_session_stream");
    ctx.ev_bytes(132, &flat);
    let pieces = vec![flat.clone()];
    let parts = four_partitions(ctx, &pieces);
    let mut results: Vec<(&'static str, Vec<CallRec>)> = Vec::new();
    for (name, lens) in parts.iter() {
        crate::worlds::install_amf_order(g.order_seed);
        let mut node = match CliNode::new(ctx, g.cfg.clone(), 1, NodeClock::new(0)) {
            Ok(x) => x,
            Err(_) => return Ok(()),
        };
        node.c.clock = NodeClock::new(g.off_ms);
        let mut dead = false;
        for st in steps.iter() {
            match st {
                SetupStep::Bytes(b) => {
                    if node.handle_input(ctx, b)?.is_err() {
                        dead = true;
                        break;
                    }
                }
                other => setup_app(&mut node, ctx, other),
            }
        }
        if dead {
            return Ok(());
        }
        let mut calls = Vec::new();
        let mut pos = 0usize;
        for &n in lens.iter() {
            let n = n.min(flat.len() - pos);
            let seg = &flat[pos..pos + n];
            let r = node.handle_input(ctx, seg)?;
            ctx.steps += 1;
            match r {
                Ok(out) => calls.push(CallRec { start: pos, end: pos + n, outs: results_to_strings(&out), err: None }),
                Err(e) => {
                    calls.push(CallRec { start: pos, end: pos + n, outs: Vec::new(), err: Some(e.to_string()) });
                    break;
                }
            }
            pos += n;
            if pos >= flat.len() {
                break;
            }
        }
        ctx.ev(133, calls.len() as u64, calls.iter().map(|c| c.outs.len() as u64).sum());
        results.push((name, calls));
    }
    compare_sessions(ctx, "client-differential", &results)
}

/// C03: the valid workload of this world with a hostile peer mixed in; safety oracle only.
pub fn run_hostile(ctx: &mut Ctx) -> RunResult {
    ctx.world("F-hostile");
    ctx.step_cap = 30_000;
    let mut w = build(ctx, FMode::C18)?;
    w.model_alive = true;
    let kinds: Vec<usize> = (0..crate::link::HOSTILE_KINDS.len()).filter(|_| ctx.ch.chance("cfg.fault", 1, 2)).collect();
    let rate = *ctx.ch.pick("cfg.faultrate", &[3u64, 6, 2]);
    w.hostile = Some((kinds, rate, 0));
    let max_msgs = 5 + ctx.ch.draw("op.count", 30) as usize;
    // hostile bytes arrive after a valid prefix of arbitrary length
    w.hostile_after = ctx.ch.draw("cfg.hostile_after", max_msgs as u64) as usize;
    loop {
        if w.cli.c.closed || !ctx.step() {
            break;
        }
        let mut enabled: Vec<u8> = Vec::new();
        if w.peer_open && w.peer_msgs < max_msgs {
            enabled.push(0);
        }
        if w.link.available() > 0 {
            enabled.push(1);
            enabled.push(1);
        }
        if w.app_calls < 20 && (!w.model.pending.is_empty() || ctx.ch.chance("sched.app", 1, 3)) {
            enabled.push(2);
        }
        if enabled.is_empty() {
            break;
        }
        let pick = enabled[ctx.ch.draw("sched.pick", enabled.len() as u64) as usize];
        match pick {
            0 => {
                ctx.sched(0, 0, 0);
                w.peer_step(ctx);
            }
            1 => w.deliver(ctx, false)?,
            _ => w.app_step(ctx)?,
        }
    }
    ctx.nontrivial = w.peer_msgs >= 2;
    if w.cli.c.closed {
        ctx.probe("c03.f.session_closed_by_error");
    } else {
        ctx.probe("c03.f.session_survived");
    }
    Ok(())
}
