//! C18 -- everything a session emits stays decodable by a conformant peer, at any uptime:
//! World D pair histories and World E / F scripted-peer histories (incl. refused calls and peer
//! nonsense that does not make handle_input fail), with clock offsets, jumps and drop subsets.

use crate::engine::{Ctx, RunResult};
use crate::worlds::{d, e, f};

pub fn run(ctx: &mut Ctx) -> RunResult {
    match ctx.ch.weighted("cfg.world", &[4, 2, 2, 1]) {
        0 => d::run(ctx, d::DMode::C18),
        1 => e::run(ctx, e::EMode::C18),
        2 => f::run(ctx, f::FMode::C18),
        _ => d::run_c18_edge(ctx),
    }
}
