//! C18 -- everything a session emits stays decodable by a conformant peer, at any uptime.

use crate::engine::{Ctx, RunResult};
use crate::worlds::d;

pub fn run(ctx: &mut Ctx) -> RunResult {
    d::run(ctx, d::DMode::C18)
}
