//! World D -- session pair: real `ClientSession` + client application <-> two links <-> real
//! `ServerSession` + server application, with node clocks, taps on both directions and the
//! AckModel.  Serves C02, C17, C18 and the session half of C19.

use crate::choice::expand_bytes;
use crate::engine::{Ctx, RunResult, Violation};
use crate::link::Link;
use crate::refs::chunk::RefChunkDecoder;
use crate::worlds::sess::{payload_hash, CliNode, NodeClock, SrvNode, Want, CONTROL_TYPES};
use crate::worlds::transcript;
use bytes::Bytes;
use rml_rtmp::sessions::{
    ClientSessionConfig, ClientSessionEvent, PublishRequestType, ServerSessionConfig, ServerSessionEvent, StreamMetadata,
};
use rml_rtmp::time::RtmpTimestamp;
use std::collections::VecDeque;

#[derive(Clone, Copy, PartialEq, Eq, Debug)]
pub enum DMode {
    C02,
    C17,
    C18,
    C19,
}

/// C18 also runs the configuration-swarm scenario (edge strings, sizes) and checks the
/// transcripts of whatever was emitted up to a refusal.
pub fn run_c18_edge(ctx: &mut Ctx) -> RunResult {
    run_inner(ctx, DMode::C19, true)
}

#[derive(Clone, Debug, PartialEq)]
pub enum ItemKind {
    Meta(StreamMetadata),
    Audio,
    Video,
}

#[derive(Clone, Debug)]
pub struct Item {
    pub kind: ItemKind,
    pub data: Vec<u8>,
    pub ts: u32,
    pub droppable: bool,
}

impl Item {
    fn brief(&self) -> String {
        match self.kind {
            ItemKind::Meta(_) => "metadata".to_string(),
            ItemKind::Audio => format!("audio len={} ts={} droppable={}", self.data.len(), self.ts, self.droppable),
            ItemKind::Video => format!("video len={} ts={} droppable={}", self.data.len(), self.ts, self.droppable),
        }
    }
}

pub struct DCfg {
    pub publish: bool,
    pub app: String,
    pub key: String,
    pub pub_type: u64,
    pub items: Vec<Item>,
    pub c_chunk: u32,
    pub s_chunk: u32,
    pub c_win: u32,
    pub s_win: u32,
    pub bw: u32,
    pub bwdone: bool,
    pub tc_url: Option<String>,
    pub fms: String,
    pub flash: String,
    pub buffer_ms: u32,
    pub c_off_ms: u64,
    pub s_off_ms: u64,
    pub time_scale: u64,
    /// C19: an inexpressible value is in play, so an Err from a call counts as "refused"
    pub inexpressible: Vec<&'static str>,
    pub edge_values: u32,
    /// further activities on the same connection after the first one was stopped:
    /// (publish?, stream key, publish type, items)
    pub later: Vec<(bool, String, u64, Vec<Item>)>,
}

/// Names that are idiomatic for RTMP deployments (FMS / Wowza instance names, query strings,
/// codec prefixes, paths).
const IDIOMATIC_NAMES: [&str; 10] = [
    "live/_definst_",
    "app/_definst_/x",
    "vod/_definst_",
    "_definst_",
    "live?token=abc&e=1",
    "mp4:sample.mp4",
    "live/stream/deep/path",
    "LIVE",
    "live ",
    "rtmp://host:1935/live",
];

fn draw_name(ctx: &mut Ctx, label: &'static str) -> String {
    if ctx.ch.chance("op.arg.idiom", 1, 8) {
        return ctx.ch.pick("op.arg.idiomv", &IDIOMATIC_NAMES).to_string();
    }
    match ctx.ch.weighted(label, &[4, 2, 2, 1]) {
        0 => "live".to_string(),
        1 => format!("app{}", ctx.ch.draw("op.arg.namev", 100)),
        2 => {
            let n = ctx.ch.range("op.arg.namelen", 1, 40) as usize;
            let raw = ctx.ch.bytes("bytes.seed", n);
            raw.iter().map(|b| (b'a' + b % 26) as char).collect()
        }
        _ => "str\u{e9}am/\u{4e16}\u{754c}?x=1&y=2".to_string(),
    }
}

fn draw_edge_string(ctx: &mut Ctx, label: &'static str, base: &str, cfg: &mut DCfg, what: &'static str) -> String {
    match ctx.ch.weighted(label, &[6, 1, 1, 1, 1, 1, 1]) {
        0 => base.to_string(),
        5 => {
            // multi-byte UTF-8 close to the limit (expressible): 2-, 3- or 4-byte characters
            // whose boundaries fall on arbitrary offsets, total length at or just below 65,535
            cfg.edge_values += 1;
            let bytes = *ctx.ch.pick("cfg.edgebytes", &[65535usize, 65534, 65520, 65505, 65504, 65503]);
            let unit = 2 + ctx.ch.draw("cfg.edgeunit", 3) as usize;
            let shift = ctx.ch.draw("cfg.edgeshift", 4) as usize;
            crate::worlds::hostile::exact_bytes_string(bytes, unit, shift)
        }
        6 => {
            // multi-byte UTF-8, 65,536 bytes in 32,768 characters (not expressible)
            cfg.edge_values += 1;
            cfg.inexpressible.push(what);
            "\u{e9}".repeat(32768)
        }
        1 => {
            cfg.edge_values += 1;
            String::new()
        }
        2 => {
            cfg.edge_values += 1;
            "x".to_string()
        }
        3 => {
            cfg.edge_values += 1;
            "y".repeat(65535)
        }
        _ => {
            cfg.edge_values += 1;
            cfg.inexpressible.push(what);
            "z".repeat(65536)
        }
    }
}

fn draw_chunk(ctx: &mut Ctx, label: &'static str, edge: bool, cfg: &mut DCfg, what: &'static str) -> u32 {
    if edge {
        let k = ctx.ch.weighted(label, &[4, 2, 2, 2, 2, 2, 2, 2, 2, 2, 2, 2, 2]);
        if k != 0 {
            cfg.edge_values += 1;
        }
        let v = match k {
            0 => 4096,
            1 => 0,
            2 => 1,
            3 => 2,
            4 => 127,
            5 => 128,
            6 => 129,
            7 => 0x7FFF_FFFE,
            8 => 0x7FFF_FFFF,
            9 => 0x8000_0000,
            10 => 0xFFFF_FFFF,
            11 => ctx.ch.range("cfg.chunkv", 1, 300) as u32,
            _ => ctx.ch.draw("cfg.chunkv", 1 << 32) as u32,
        };
        if v == 0 || v > 0x7FFF_FFFF {
            cfg.inexpressible.push(what);
        }
        return v;
    }
    match ctx.ch.weighted(label, &[4, 2, 2, 2, 2, 2, 2, 2, 3, 1, 1]) {
        0 => 4096,
        1 => 1,
        2 => 2,
        3 => 3,
        4 => 5,
        5 => 64,
        6 => 127,
        7 => 128,
        8 => ctx.ch.range("cfg.chunkv", 1, 300) as u32,
        9 => 65536,
        _ => 0x7FFF_FFFF,
    }
}

fn draw_window(ctx: &mut Ctx, label: &'static str, default: u32, edge: bool) -> u32 {
    if edge {
        return match ctx.ch.weighted(label, &[4, 2, 2, 2, 2, 2, 2]) {
            0 => default,
            1 => 0,
            2 => 1,
            3 => 0xFFFF_FFFF,
            4 => 0x8000_0000,
            5 => ctx.ch.range("cfg.winv", 1, 5000) as u32,
            _ => ctx.ch.draw("cfg.winv", 1 << 32) as u32,
        };
    }
    match ctx.ch.weighted(label, &[3, 4, 2, 2, 2, 1, 1]) {
        0 => default,
        1 => ctx.ch.range("cfg.winv", 1, 64) as u32,
        2 => 100,
        3 => 1000,
        4 => 5000,
        5 => 65536,
        _ => 0xFFFF_FFFF,
    }
}

fn draw_metadata(ctx: &mut Ctx, enc_edge: Option<&mut DCfg>) -> StreamMetadata {
    let mut m = StreamMetadata::new();
    let mask = ctx.ch.draw("op.arg.metamask", 1 << 11);
    let mut num = |ctx: &mut Ctx| -> u32 {
        match ctx.ch.weighted("op.arg.metanum", &[3, 1, 1]) {
            0 => ctx.ch.draw("op.arg.metav", 5000) as u32,
            1 => 0,
            _ => 0xFFFF_FFFF,
        }
    };
    if mask & 1 != 0 {
        m.video_width = Some(num(ctx));
    }
    if mask & 2 != 0 {
        m.video_height = Some(num(ctx));
    }
    if mask & 4 != 0 {
        m.video_codec_id = Some(num(ctx));
    }
    if mask & 8 != 0 {
        m.video_frame_rate = Some(ctx.ch.draw("op.arg.metav", 240) as f32 / 4.0);
    }
    if mask & 16 != 0 {
        m.video_bitrate_kbps = Some(num(ctx));
    }
    if mask & 32 != 0 {
        m.audio_codec_id = Some(num(ctx));
    }
    if mask & 64 != 0 {
        m.audio_bitrate_kbps = Some(num(ctx));
    }
    if mask & 128 != 0 {
        m.audio_sample_rate = Some(num(ctx));
    }
    if mask & 256 != 0 {
        m.audio_channels = Some(num(ctx));
    }
    if mask & 512 != 0 {
        m.audio_is_stereo = Some(ctx.ch.chance("op.arg.metab", 1, 2));
    }
    if mask & 1024 != 0 {
        m.encoder = Some(match enc_edge {
            Some(cfg) => draw_edge_string(ctx, "op.arg.encoder", "obs", cfg, "metadata encoder string > 65535"),
            None => {
                if ctx.ch.chance("op.arg.enclong", 1, 4) {
                    crate::worlds::hostile::long_mixed_string(ctx)
                } else {
                    draw_name(ctx, "op.arg.encoder")
                }
            }
        });
    }
    m
}

fn draw_items(ctx: &mut Ctx, cfg: &mut DCfg, chunk: u32, edge: bool) -> Vec<Item> {
    let n = ctx.ch.draw("op.count", if ctx.tier_thorough { 31 } else { 11 }) as usize;
    let mut items = Vec::new();
    let ts_mode = ctx.ch.weighted("cfg.ts", &[3, 2, 2, 2]);
    let mut ts: u32 = match ts_mode {
        2 => 0xFFFF_FF00,
        3 => 0xFF_FF00,
        _ => 0,
    };
    // per kind (video, audio): (timestamp, delta, length) of the previous item -- header
    // compression works per chunk stream, so coincidences matter per kind
    let mut last: [(u32, u32, usize, bool); 2] = [(0, 0, 0, false); 2];
    for _ in 0..n {
        let kind = ctx.ch.weighted("op.kind", &[4, 4, 2]);
        ts = match ts_mode {
            0 => ts.wrapping_add(ctx.ch.draw("ts.step", 50) as u32),
            1 => ctx.ch.draw("ts.step", 1 << 32) as u32,
            _ => ts.wrapping_add(ctx.ch.draw("ts.step", 400) as u32),
        };
        let mut same_len: Option<usize> = None;
        if kind < 2 && last[kind].3 {
            let (pt, pd, pl, _) = last[kind];
            // coincidences with the previous item of the same kind: same cadence, a timestamp
            // that doubles the previous one (delta == previous absolute time), same timestamp;
            // and the same length
            match ctx.ch.weighted("ts.coincidence", &[6, 2, 2, 1, 1]) {
                1 => ts = pt.wrapping_add(pd),
                2 => ts = pt.wrapping_add(pt),
                3 => ts = pt,
                4 => {
                    ts = pt.wrapping_add(*ctx.ch.pick("ts.step", &[0xFF_FFFFu32, 0x100_0000, 0xFF_FFFE]))
                }
                _ => {}
            }
            if ctx.ch.chance("op.arg.samelen", 1, 2) {
                same_len = Some(pl);
            }
        }
        let c = chunk.max(1) as u64;
        let len = match ctx.ch.weighted("op.arg.lenk", &[4, 2, 3, 2, 1]) {
            0 => ctx.ch.range("op.arg.len", 1, 40),
            1 => 0,
            2 => {
                let base = ctx.ch.range("op.arg.lenm", 1, 3).saturating_mul(c);
                if base > 70_000 {
                    ctx.ch.range("op.arg.len", 1, 300)
                } else {
                    (base + ctx.ch.draw("op.arg.lend", 3)).saturating_sub(1)
                }
            }
            3 => ctx.ch.range("op.arg.len", 41, 5000),
            _ => ctx.ch.range("op.arg.len", 60_000, 70_000),
        };
        let mut len = same_len.unwrap_or(len.min(c.saturating_mul(3000)) as usize);
        if edge && kind < 2 && c >= 4096 && ctx.ch.chance("op.arg.over", 1, 250) {
            // payloads around the 16,777,215-byte limit (costly, hence rare)
            cfg.edge_values += 1;
            len = *ctx.ch.pick("op.arg.overn", &[16_777_216usize, 16_777_215, 16_777_217]);
            if len > 16_777_215 {
                cfg.inexpressible.push("media payload > 16,777,215 bytes");
            }
        }
        if kind < 2 {
            let pt = last[kind].0;
            last[kind] = (ts, ts.wrapping_sub(pt), len, true);
        }
        let droppable = ctx.ch.chance("op.arg.drop", 1, 3);
        let seed = ctx.ch.sub_seed("bytes.seed");
        let mut data = expand_bytes(seed, len);
        if kind < 2 && same_len.is_none() && ctx.ch.chance("op.arg.mediaidiom", 1, 6) {
            // idiomatic FLV tag bodies: AVC sequence header / keyframe / inter frame / end of
            // sequence, AAC sequence header / raw frame
            let pre: &[u8] = if kind == 0 {
                *ctx.ch.pick("op.arg.mediav", &[&[0x17u8, 0, 0, 0, 0][..], &[0x17, 1, 0, 0, 0], &[0x27, 1, 0, 0, 0], &[0x17, 2, 0, 0, 0], &[0x57, 0], &[0x17]])
            } else {
                *ctx.ch.pick("op.arg.mediav", &[&[0xAFu8, 0, 0x12, 0x10][..], &[0xAF, 1], &[0x2F], &[0xAF, 0]])
            };
            if ctx.ch.chance("op.arg.mediaexact", 1, 2) || data.len() < pre.len() {
                data = pre.to_vec();
            } else {
                data[..pre.len()].copy_from_slice(pre);
            }
            if kind < 2 {
                last[kind].2 = data.len();
            }
        }
        items.push(match kind {
            0 => Item { kind: ItemKind::Video, data, ts, droppable },
            1 => Item { kind: ItemKind::Audio, data, ts, droppable },
            _ => Item { kind: ItemKind::Meta(draw_metadata(ctx, if edge { Some(cfg) } else { None })), data: Vec::new(), ts: 0, droppable: false },
        });
    }
    items
}

pub fn draw_cfg(ctx: &mut Ctx, mode: DMode) -> DCfg {
    let edge = mode == DMode::C19;
    let mut cfg = DCfg {
        publish: true,
        app: String::new(),
        key: String::new(),
        pub_type: 0,
        items: Vec::new(),
        c_chunk: 4096,
        s_chunk: 4096,
        c_win: 2_500_000,
        s_win: 1_073_741_824,
        bw: 2_500_000,
        bwdone: true,
        tc_url: None,
        fms: "FMS/3,0,1,1233".to_string(),
        flash: "WIN 23,0,0,207".to_string(),
        buffer_ms: 2000,
        c_off_ms: 0,
        s_off_ms: 0,
        time_scale: 0,
        inexpressible: Vec::new(),
        edge_values: 0,
        later: Vec::new(),
    };
    cfg.publish = !ctx.ch.chance("cfg.play", 1, 2);
    cfg.app = draw_name(ctx, "cfg.app");
    cfg.key = draw_name(ctx, "cfg.key");
    if edge {
        let a = cfg.app.clone();
        cfg.app = draw_edge_string(ctx, "cfg.appedge", &a, &mut cfg, "app name > 65535");
        let k = cfg.key.clone();
        cfg.key = draw_edge_string(ctx, "cfg.keyedge", &k, &mut cfg, "stream key > 65535");
        let f = cfg.fms.clone();
        cfg.fms = draw_edge_string(ctx, "cfg.fmsedge", &f, &mut cfg, "fms_version > 65535");
        let f = cfg.flash.clone();
        cfg.flash = draw_edge_string(ctx, "cfg.flashedge", &f, &mut cfg, "flash_version > 65535");
    }
    // the server derives status descriptions ("Successfully connected on app: <app>", "... on
    // stream key <key>") from these names; with a name near 65535 bytes the derived string is
    // not expressible as an AMF0 string, so an Err from accept_request is a refusal
    if cfg.app.len() > 65535 - 64 && !cfg.inexpressible.contains(&"app name > 65535") {
        cfg.inexpressible.push("status description derived from the app name > 65535");
    }
    if cfg.key.len() > 65535 - 64 && !cfg.inexpressible.contains(&"stream key > 65535") {
        cfg.inexpressible.push("status description derived from the stream key > 65535");
    }
    if cfg.app.ends_with('/') {
        cfg.app.push('x'); // the server deliberately strips one trailing slash
    }
    cfg.pub_type = ctx.ch.draw("cfg.pubtype", 3);
    cfg.c_chunk = draw_chunk(ctx, "cfg.cchunk", edge, &mut cfg, "client chunk size");
    cfg.s_chunk = draw_chunk(ctx, "cfg.schunk", edge, &mut cfg, "server chunk size");
    cfg.c_win = draw_window(ctx, "cfg.cwin", 2_500_000, edge);
    cfg.s_win = draw_window(ctx, "cfg.swin", 1_073_741_824, edge);
    // Two peers whose announced windows are both a few bytes acknowledge each other's
    // acknowledgements with a loop gain above one under small segments (any conformant pair
    // does); keep the product of the windows above that threshold.
    let wc = cfg.c_win.max(1) as u64;
    let ws = cfg.s_win.max(1) as u64;
    if wc * ws < 4096 {
        if ctx.ch.chance("cfg.winfix", 1, 2) {
            cfg.c_win = (4096 / ws + 1) as u32;
        } else {
            cfg.s_win = (4096 / wc + 1) as u32;
        }
    }
    cfg.bw = match ctx.ch.weighted("cfg.bw", &[3, 1, 1, 1]) {
        0 => 2_500_000,
        1 => 0,
        2 => 0xFFFF_FFFF,
        _ => ctx.ch.draw("cfg.bwv", 1 << 32) as u32,
    };
    cfg.bwdone = !ctx.ch.chance("cfg.nobwdone", 1, 3);
    if ctx.ch.chance("cfg.tcurl", 1, 3) {
        let base = format!("rtmp://host/{}", cfg.app);
        cfg.tc_url = Some(if edge { draw_edge_string(ctx, "cfg.tcurledge", &base, &mut cfg, "tc_url > 65535") } else { base });
    }
    cfg.buffer_ms = match ctx.ch.weighted("cfg.buffer", &[3, 1, 1]) {
        0 => 2000,
        1 => 0,
        _ => 0xFFFF_FFFF,
    };
    // clocks
    let offs = |ctx: &mut Ctx, label: &'static str| -> u64 {
        if mode == DMode::C18 {
            let d = ctx.ch.draw("clock.delta", 2000);
            match ctx.ch.weighted(label, &[3, 2, 2, 2, 2, 2]) {
                0 => 0,
                1 => (1u64 << 24) - 1 - d.min((1 << 24) - 1),
                2 => (1u64 << 24) + d,
                3 => (1u64 << 32) - 1 - d,
                4 => (1u64 << 32) + d,
                _ => ctx.ch.draw("clock.offv", 1u64 << 33),
            }
        } else {
            match ctx.ch.weighted(label, &[3, 1]) {
                0 => 0,
                _ => ctx.ch.draw("clock.offv", 100_000),
            }
        }
    };
    cfg.c_off_ms = offs(ctx, "clock.off");
    cfg.s_off_ms = offs(ctx, "clock.off");
    cfg.time_scale = ctx.ch.weighted("cfg.timescale", &[3, 2, 2, 1, 1]) as u64;
    let sender_chunk = if cfg.publish { cfg.c_chunk } else { cfg.s_chunk };
    cfg.items = draw_items(ctx, &mut cfg, sender_chunk, edge);
    // 0-2 further activities on the same connection (3 in the thorough tier)
    let mut extra = ctx.ch.weighted("cfg.activities", &[6, 3, 1, if ctx.tier_thorough { 1 } else { 0 }]);
    let many = mode != DMode::C19 && ctx.ch.chance("cfg.manyactivities", 1, 150);
    if many {
        // rare: a long-lived connection with dozens of activities (stream ids grow past 16, 64)
        extra = 15 + ctx.ch.draw("cfg.activitiesn", 60) as usize;
    }
    for _ in 0..extra {
        let publish = !ctx.ch.chance("cfg.play", 1, 2);
        let key = if ctx.ch.chance("cfg.samekey", 1, 3) { cfg.key.clone() } else { draw_name(ctx, "cfg.key") };
        let key = if key.len() > 1000 { "k2".to_string() } else { key };
        let pub_type = ctx.ch.draw("cfg.pubtype", 3);
        let chunk = if publish { cfg.c_chunk } else { cfg.s_chunk };
        let mut items = draw_items(ctx, &mut cfg, chunk, false);
        if many {
            items.truncate(2);
        }
        cfg.later.push((publish, key, pub_type, items));
    }
    cfg
}

pub fn advance_time(ctx: &mut Ctx, scale: u64) {
    let adv = match scale {
        0 => 0,
        1 => ctx.ch.draw("clock.adv", 2_000),                     // up to 2 us
        2 => ctx.ch.draw("clock.adv", 50_000_000),                // up to 50 ms
        3 => ctx.ch.draw("clock.adv", 5_000_000_000),             // up to 5 s
        _ => ctx.ch.draw("clock.adv", 3 * 3_600_000_000_000),     // up to 3 h
    };
    ctx.now_ns = ctx.now_ns.saturating_add(adv);
}

#[derive(Debug)]
enum SrvAction {
    /// request id, message stream the answer belongs on (None = connection level, stream 0)
    Accept(u32, Option<u32>),
    SendItem(u32, usize),
}

#[derive(Clone, Copy, PartialEq, Eq, Debug)]
enum CliPhase {
    Start,
    WaitConnect,
    Connected,
    WaitAccept,
    Active,
    Done,
}

pub struct World {
    pub mode: DMode,
    pub cfg: DCfg,
    pub cli: CliNode,
    pub srv: SrvNode,
    pub c2s: Link,
    pub s2c: Link,
    c2s_hdr_tap: RefChunkDecoder,
    s2c_hdr_tap: RefChunkDecoder,
    srv_actions: VecDeque<SrvAction>,
    cli_phase: CliPhase,
    cli_accepted: bool,
    next_item: usize,
    received_items: usize,
    srv_connect_requested: u32,
    srv_stream_requested: u32,
    finished_events: u32,
    play_sid: Option<u32>,
    refused: Option<String>,
    acts_done: u32,
}

fn viol(ctx: &Ctx, oracle: &str, class: &str, msg: String) -> Violation {
    Violation::new(format!("{}/{}/{}", ctx.prop, oracle, class), msg)
}

impl World {
    fn push_c2s(&mut self, wire: &[Vec<u8>]) {
        for w in wire {
            let base = self.c2s.pushed;
            self.c2s.push(w);
            self.c2s_hdr_tap.chunks.clear();
            let _ = self.c2s_hdr_tap.feed(w);
            for c in self.c2s_hdr_tap.chunks.iter() {
                let _ = base;
                self.c2s.note_header(c.off, c.hdr_len);
            }
        }
    }

    fn push_s2c(&mut self, wire: &[Vec<u8>]) {
        for w in wire {
            self.s2c.push(w);
            self.s2c_hdr_tap.chunks.clear();
            let _ = self.s2c_hdr_tap.feed(w);
            for c in self.s2c_hdr_tap.chunks.iter() {
                self.s2c.note_header(c.off, c.hdr_len);
            }
        }
    }

    /// An Err from a call: refused (C19 with an inexpressible value) or a violation.
    fn call_failed(&mut self, ctx: &mut Ctx, what: &str, err: String) -> RunResult {
        if self.mode == DMode::C19 && !self.cfg.inexpressible.is_empty() {
            ctx.tr(|| format!("    {} refused: {}", what, err));
            ctx.probe("d.refused_inexpressible_value");
            self.refused = Some(format!("{}: {}", what, err));
            return Ok(());
        }
        Err(viol(ctx, "session", "call-error", format!("{} returned Err({}) in a fault-free run with accepted configuration", what, err)))
    }

    fn expected_meta_eq(a: &StreamMetadata, b: &StreamMetadata) -> bool {
        a == b
    }

    fn check_received(&mut self, ctx: &mut Ctx, side: &str, kind: &str, data: Option<&[u8]>, ts: Option<u32>, meta: Option<&StreamMetadata>) -> RunResult {
        let i = self.received_items;
        if i >= self.cfg.items.len() {
            return Err(viol(ctx, "media", "extra-item", format!("{} raised a {} event but all {} items were already delivered", side, kind, self.cfg.items.len())));
        }
        let it = &self.cfg.items[i];
        let ok = match (&it.kind, kind) {
            (ItemKind::Audio, "audio") | (ItemKind::Video, "video") => data == Some(&it.data[..]) && ts == Some(it.ts),
            (ItemKind::Meta(m), "metadata") => meta.map(|x| Self::expected_meta_eq(m, x)).unwrap_or(false),
            _ => false,
        };
        if !ok {
            let class = match (&it.kind, kind) {
                (ItemKind::Audio, "audio") | (ItemKind::Video, "video") => {
                    if ts != Some(it.ts) {
                        "wrong-timestamp"
                    } else {
                        "wrong-payload"
                    }
                }
                (ItemKind::Meta(_), "metadata") => "wrong-metadata",
                _ => "wrong-kind-or-order",
            };
            return Err(viol(
                ctx,
                "media",
                class,
                format!("item #{} sent as [{}] was raised at the {} as {} len={:?} ts={:?}", i, it.brief(), side, kind, data.map(|d| d.len()), ts),
            ));
        }
        self.received_items += 1;
        ctx.tr(|| format!("    {} received item #{} ({})", side, i, kind));
        Ok(())
    }

    fn on_server_events(&mut self, ctx: &mut Ctx, events: Vec<ServerSessionEvent>) -> RunResult {
        for e in events {
            match e {
                ServerSessionEvent::ConnectionRequested { request_id, app_name } => {
                    if app_name != self.cfg.app {
                        return Err(viol(ctx, "tags", "wrong-app-name", format!("connection requested for app {:?} (len {}), client asked for {:?} (len {})", trunc(&app_name), app_name.len(), trunc(&self.cfg.app), self.cfg.app.len())));
                    }
                    self.srv_connect_requested += 1;
                    self.srv_actions.push_back(SrvAction::Accept(request_id, None));
                }
                ServerSessionEvent::PublishStreamRequested { request_id, app_name, stream_key, mode } => {
                    let want_mode = ["Live", "Record", "Append"][self.cfg.pub_type as usize];
                    if app_name != self.cfg.app || stream_key != self.cfg.key || format!("{:?}", mode) != want_mode {
                        return Err(viol(ctx, "tags", "wrong-publish-request", format!("publish requested for app {:?} key {:?} mode {:?}; client asked for {:?}/{:?}/{}", trunc(&app_name), trunc(&stream_key), mode, trunc(&self.cfg.app), trunc(&self.cfg.key), want_mode)));
                    }
                    self.srv_stream_requested += 1;
                    // the event does not carry the stream id: it is the one createStream returned
                    let sid = self.srv.c.known_sids.last().copied();
                    self.srv_actions.push_back(SrvAction::Accept(request_id, Some(sid.unwrap_or(1))));
                }
                ServerSessionEvent::PlayStreamRequested { request_id, app_name, stream_key, stream_id, .. } => {
                    if app_name != self.cfg.app || stream_key != self.cfg.key {
                        return Err(viol(ctx, "tags", "wrong-play-request", format!("play requested for app {:?} key {:?}; client asked for {:?}/{:?}", trunc(&app_name), trunc(&stream_key), trunc(&self.cfg.app), trunc(&self.cfg.key))));
                    }
                    self.srv_stream_requested += 1;
                    self.play_sid = Some(stream_id);
                    self.srv_actions.push_back(SrvAction::Accept(request_id, Some(stream_id)));
                    for i in 0..self.cfg.items.len() {
                        self.srv_actions.push_back(SrvAction::SendItem(stream_id, i));
                    }
                }
                ServerSessionEvent::PublishStreamFinished { app_name, stream_key } | ServerSessionEvent::PlayStreamFinished { app_name, stream_key } => {
                    if app_name != self.cfg.app || stream_key != self.cfg.key {
                        return Err(viol(ctx, "tags", "wrong-finished-tags", format!("finished event for {:?}/{:?}", trunc(&app_name), trunc(&stream_key))));
                    }
                    self.finished_events += 1;
                    if self.finished_events > self.acts_done + 1 {
                        return Err(viol(ctx, "workflow", "finished-twice", format!("{} finished events after {} stops", self.finished_events, self.acts_done + 1)));
                    }
                    ctx.tr(|| "    server raised the finished event".to_string());
                }
                ServerSessionEvent::AudioDataReceived { app_name, stream_key, data, timestamp } => {
                    if app_name != self.cfg.app || stream_key != self.cfg.key {
                        return Err(viol(ctx, "tags", "wrong-media-tags", format!("audio tagged {:?}/{:?}", trunc(&app_name), trunc(&stream_key))));
                    }
                    self.check_received(ctx, "server", "audio", Some(&data[..]), Some(timestamp.value), None)?;
                }
                ServerSessionEvent::VideoDataReceived { app_name, stream_key, data, timestamp } => {
                    if app_name != self.cfg.app || stream_key != self.cfg.key {
                        return Err(viol(ctx, "tags", "wrong-media-tags", format!("video tagged {:?}/{:?}", trunc(&app_name), trunc(&stream_key))));
                    }
                    self.check_received(ctx, "server", "video", Some(&data[..]), Some(timestamp.value), None)?;
                }
                ServerSessionEvent::StreamMetadataChanged { app_name, stream_key, metadata } => {
                    if app_name != self.cfg.app || stream_key != self.cfg.key {
                        return Err(viol(ctx, "tags", "wrong-media-tags", format!("metadata tagged {:?}/{:?}", trunc(&app_name), trunc(&stream_key))));
                    }
                    self.check_received(ctx, "server", "metadata", None, None, Some(&metadata))?;
                }
                _ => {}
            }
        }
        Ok(())
    }

    fn on_client_events(&mut self, ctx: &mut Ctx, events: Vec<ClientSessionEvent>) -> RunResult {
        for e in events {
            match e {
                ClientSessionEvent::ConnectionRequestAccepted => {
                    if self.cli_phase != CliPhase::WaitConnect {
                        return Err(viol(ctx, "workflow", "unexpected-connect-accepted", format!("ConnectionRequestAccepted in phase {:?}", self.cli_phase)));
                    }
                    self.cli_phase = CliPhase::Connected;
                }
                ClientSessionEvent::ConnectionRequestRejected { description } => {
                    return Err(viol(ctx, "workflow", "connect-rejected", format!("connection rejected although the server application accepted: {}", description)));
                }
                ClientSessionEvent::PublishRequestAccepted | ClientSessionEvent::PlaybackRequestAccepted => {
                    if self.cli_phase != CliPhase::WaitAccept {
                        return Err(viol(ctx, "workflow", "unexpected-accepted", format!("request accepted event in phase {:?}", self.cli_phase)));
                    }
                    self.cli_accepted = true;
                    self.cli_phase = CliPhase::Active;
                }
                ClientSessionEvent::AudioDataReceived { data, timestamp } => {
                    self.check_received(ctx, "client", "audio", Some(&data[..]), Some(timestamp.value), None)?;
                }
                ClientSessionEvent::VideoDataReceived { data, timestamp } => {
                    self.check_received(ctx, "client", "video", Some(&data[..]), Some(timestamp.value), None)?;
                }
                ClientSessionEvent::StreamMetadataReceived { metadata } => {
                    self.check_received(ctx, "client", "metadata", None, None, Some(&metadata))?;
                }
                _ => {}
            }
        }
        Ok(())
    }

    fn deliver_c2s(&mut self, ctx: &mut Ctx) -> RunResult {
        let seg = self.c2s.next_segment(ctx);
        ctx.sched(1, 0, Ctx::bucket_len(seg.len()));
        ctx.ev(100, seg.len() as u64, self.c2s.head);
        ctx.trt(|now| format!("  t={}ns c->s deliver {} bytes (offset ..{})", now, seg.len(), self.c2s.head));
        match self.srv.handle_input(ctx, &seg)? {
            Ok(out) => {
                self.push_s2c(&out.wire);
                self.on_server_events(ctx, out.events)
            }
            Err(e) => self.call_failed(ctx, "ServerSession::handle_input", e.to_string()),
        }
    }

    fn deliver_s2c(&mut self, ctx: &mut Ctx) -> RunResult {
        let seg = self.s2c.next_segment(ctx);
        ctx.sched(2, 0, Ctx::bucket_len(seg.len()));
        ctx.ev(101, seg.len() as u64, self.s2c.head);
        ctx.trt(|now| format!("  t={}ns s->c deliver {} bytes (offset ..{})", now, seg.len(), self.s2c.head));
        match self.cli.handle_input(ctx, &seg)? {
            Ok(out) => {
                self.push_c2s(&out.wire);
                self.on_client_events(ctx, out.events)
            }
            Err(e) => self.call_failed(ctx, "ClientSession::handle_input", e.to_string()),
        }
    }

    fn server_app_step(&mut self, ctx: &mut Ctx) -> RunResult {
        let act = match self.srv_actions.pop_front() {
            Some(a) => a,
            None => return Ok(()),
        };
        ctx.sched(3, 0, 0);
        match act {
            SrvAction::Accept(id, sid) => {
                ctx.trt(|now| format!("  t={}ns server app: accept_request({})", now, id));
                ctx.ev(102, id as u64, 0);
                let want = move |_: usize| -> Want { Want::OnStreams { type_ids: &[4, 18, 20], msids: vec![sid.unwrap_or(0)] } };
                match self.srv.app_results(ctx, &want, |s| s.accept_request(id)) {
                    Ok(out) => {
                        self.push_s2c(&out.wire);
                        Ok(())
                    }
                    Err(e) => self.call_failed(ctx, "accept_request", e.to_string()),
                }
            }
            SrvAction::SendItem(sid, i) => {
                let it = self.cfg.items[i].clone();
                ctx.trt(|now| format!("  t={}ns server app: send item #{} ({}) on stream {}", now, i, it.brief(), sid));
                ctx.ev(103, i as u64, sid as u64);
                let r = match it.kind {
                    ItemKind::Meta(ref m) => self.srv.app_packet(ctx, Want::OnStreams { type_ids: &[18], msids: vec![sid] }, |s| s.send_metadata(sid, m)),
                    ItemKind::Audio => self.srv.app_packet(
                        ctx,
                        Want::Media { type_id: 8, msid: sid, ts: it.ts, len: it.data.len(), hash: payload_hash(&it.data), droppable: it.droppable },
                        |s| s.send_audio_data(sid, Bytes::from(it.data.clone()), RtmpTimestamp::new(it.ts), it.droppable),
                    ),
                    ItemKind::Video => self.srv.app_packet(
                        ctx,
                        Want::Media { type_id: 9, msid: sid, ts: it.ts, len: it.data.len(), hash: payload_hash(&it.data), droppable: it.droppable },
                        |s| s.send_video_data(sid, Bytes::from(it.data.clone()), RtmpTimestamp::new(it.ts), it.droppable),
                    ),
                };
                match r {
                    Ok(out) => {
                        self.push_s2c(&out.wire);
                        Ok(())
                    }
                    Err(e) => self.call_failed(ctx, "server send_*", e.to_string()),
                }
            }
        }
    }

    fn client_action_enabled(&self) -> bool {
        match self.cli_phase {
            CliPhase::Start | CliPhase::Connected => true,
            CliPhase::Active => {
                if self.cfg.publish {
                    true
                } else {
                    self.received_items >= self.cfg.items.len()
                }
            }
            _ => false,
        }
    }

    fn client_app_step(&mut self, ctx: &mut Ctx) -> RunResult {
        ctx.sched(4, self.cli_phase as u64, 0);
        match self.cli_phase {
            CliPhase::Start => {
                ctx.trt(|now| format!("  t={}ns client app: request_connection({:?})", now, trunc(&self.cfg.app)));
                ctx.ev(104, 0, 0);
                let app = self.cfg.app.clone();
                match self.cli.app_result(ctx, Want::OnStreams { type_ids: &[20], msids: vec![0] }, |s| s.request_connection(app)) {
                    Ok(out) => {
                        self.push_c2s(&out.wire);
                        self.cli_phase = CliPhase::WaitConnect;
                        Ok(())
                    }
                    Err(e) => self.call_failed(ctx, "request_connection", e.to_string()),
                }
            }
            CliPhase::Connected => {
                let key = self.cfg.key.clone();
                ctx.ev(104, 1, self.cfg.publish as u64);
                let r = if self.cfg.publish {
                    ctx.trt(|now| format!("  t={}ns client app: request_publishing({:?})", now, trunc(&key)));
                    let t = match self.cfg.pub_type {
                        0 => PublishRequestType::Live,
                        1 => PublishRequestType::Record,
                        _ => PublishRequestType::Append,
                    };
                    self.cli.app_result(ctx, Want::OnStreams { type_ids: &[20], msids: vec![0] }, |s| s.request_publishing(key, t))
                } else {
                    ctx.trt(|now| format!("  t={}ns client app: request_playback({:?})", now, trunc(&key)));
                    self.cli.app_result(ctx, Want::OnStreams { type_ids: &[20], msids: vec![0] }, |s| s.request_playback(key))
                };
                match r {
                    Ok(out) => {
                        self.push_c2s(&out.wire);
                        self.cli_phase = CliPhase::WaitAccept;
                        Ok(())
                    }
                    Err(e) => self.call_failed(ctx, "request_publishing/playback", e.to_string()),
                }
            }
            CliPhase::Active => {
                let sids = self.cli.c.known_sids.clone();
                if self.cfg.publish && self.next_item < self.cfg.items.len() {
                    let i = self.next_item;
                    self.next_item += 1;
                    let it = self.cfg.items[i].clone();
                    ctx.trt(|now| format!("  t={}ns client app: publish item #{} ({})", now, i, it.brief()));
                    ctx.ev(105, i as u64, 0);
                    let sid = sids.last().copied().unwrap_or(1);
                    let r = match it.kind {
                        ItemKind::Meta(ref m) => self.cli.app_result(ctx, Want::OnStreams { type_ids: &[18], msids: vec![sid] }, |s| s.publish_metadata(m)),
                        ItemKind::Audio => self.cli.app_result(
                            ctx,
                            Want::Media { type_id: 8, msid: sid, ts: it.ts, len: it.data.len(), hash: payload_hash(&it.data), droppable: it.droppable },
                            |s| s.publish_audio_data(Bytes::from(it.data.clone()), RtmpTimestamp::new(it.ts), it.droppable),
                        ),
                        ItemKind::Video => self.cli.app_result(
                            ctx,
                            Want::Media { type_id: 9, msid: sid, ts: it.ts, len: it.data.len(), hash: payload_hash(&it.data), droppable: it.droppable },
                            |s| s.publish_video_data(Bytes::from(it.data.clone()), RtmpTimestamp::new(it.ts), it.droppable),
                        ),
                    };
                    match r {
                        Ok(out) => {
                            self.push_c2s(&out.wire);
                            Ok(())
                        }
                        Err(e) => self.call_failed(ctx, "publish_*", e.to_string()),
                    }
                } else {
                    ctx.trt(|now| format!("  t={}ns client app: stop", now));
                    ctx.ev(106, 0, 0);
                    let publish = self.cfg.publish;
                    let want = Want::OnStreams { type_ids: &[20], msids: sids };
                    let r = self.cli.app_results(ctx, want, |s| if publish { s.stop_publishing() } else { s.stop_playback() });
                    match r {
                        Ok(out) => {
                            if out.wire.is_empty() {
                                return Err(viol(ctx, "workflow", "stop-emitted-nothing", "stop_publishing/stop_playback returned no packet while the activity was running".to_string()));
                            }
                            self.push_c2s(&out.wire);
                            self.cli_phase = CliPhase::Done;
                            Ok(())
                        }
                        Err(e) => self.call_failed(ctx, "stop_*", e.to_string()),
                    }
                }
            }
            _ => Ok(()),
        }
    }

    fn complete(&self) -> bool {
        self.cli_phase == CliPhase::Done && self.finished_events >= self.acts_done + 1 && self.cfg.later.is_empty()
    }

    /// The current activity is over on both sides and another one is planned: start it on
    /// the same connection.
    fn next_activity(&mut self, ctx: &mut Ctx) -> bool {
        if self.cli_phase == CliPhase::Done && self.finished_events == self.acts_done + 1 && !self.cfg.later.is_empty() && self.received_items == self.cfg.items.len() {
            let (publish, key, pub_type, items) = self.cfg.later.remove(0);
            self.cfg.publish = publish;
            self.cfg.key = key;
            self.cfg.pub_type = pub_type;
            self.cfg.items = items;
            self.acts_done += 1;
            self.next_item = 0;
            self.received_items = 0;
            self.cli_accepted = false;
            self.play_sid = None;
            self.cli_phase = CliPhase::Connected;
            ctx.probe("d.further_activity_on_same_connection");
            if self.acts_done >= 16 {
                ctx.probe("d.more_than_16_activities");
            }
            ctx.tr(|| format!("  --- next activity on the same connection: {} {:?} ({} items)", if self.cfg.publish { "publish" } else { "play" }, trunc(&self.cfg.key), self.cfg.items.len()));
            return true;
        }
        false
    }
}

fn trunc(s: &str) -> String {
    if s.len() > 40 {
        let mut end = 40;
        while !s.is_char_boundary(end) {
            end -= 1;
        }
        format!("{}...({} bytes)", &s[..end], s.len())
    } else {
        s.to_string()
    }
}

pub fn build(ctx: &mut Ctx, mode: DMode, cfg: DCfg) -> Result<Option<World>, Violation> {
    // HashMap-order seam: AMF0 object property order is decided by the simulator
    let order_seed = ctx.ch.sub_seed("amf.order");
    crate::worlds::install_amf_order(order_seed);
    let mut scfg = ServerSessionConfig::new();
    scfg.fms_version = cfg.fms.clone();
    scfg.chunk_size = cfg.s_chunk;
    scfg.peer_bandwidth = cfg.bw;
    scfg.window_ack_size = cfg.s_win;
    scfg.send_on_bw_done_message_on_start = cfg.bwdone;
    let mut ccfg = ClientSessionConfig::new();
    ccfg.flash_version = cfg.flash.clone();
    ccfg.playback_buffer_length_ms = cfg.buffer_ms;
    ccfg.window_ack_size = cfg.c_win;
    ccfg.chunk_size = cfg.c_chunk;
    ccfg.tc_url = cfg.tc_url.clone();
    ctx.tr(|| {
        format!(
            "  config: {} app={:?} key={:?} items={} client(chunk={} win={}) server(chunk={} win={} bw={} bwdone={}) clocks(c+{}ms s+{}ms scale {})",
            if cfg.publish { "publish" } else { "play" },
            trunc(&cfg.app),
            trunc(&cfg.key),
            cfg.items.len(),
            cfg.c_chunk,
            cfg.c_win,
            cfg.s_chunk,
            cfg.s_win,
            cfg.bw,
            cfg.bwdone,
            cfg.c_off_ms,
            cfg.s_off_ms,
            cfg.time_scale
        )
    });
    // sessions measure time since their construction: build them at node time 0 and apply the
    // uptime offset afterwards, so that get_epoch() reads (simulated time + offset)
    let s_clock = NodeClock::new(0);
    let c_clock = NodeClock::new(0);
    let s_chunk_ok = cfg.s_chunk >= 1 && cfg.s_chunk <= 0x7FFF_FFFF;
    let (srv, wire0) = match SrvNode::new(ctx, scfg, 2, s_clock) {
        Ok(x) => {
            if !s_chunk_ok {
                return Err(viol(ctx, "config", "accepted-inexpressible-chunk-size", format!("ServerSession::new accepted chunk size {}", cfg.s_chunk)));
            }
            x
        }
        Err((_, e)) => {
            if mode == DMode::C19 && !cfg.inexpressible.is_empty() {
                ctx.probe("d.refused_inexpressible_value");
                ctx.tr(|| format!("    ServerSession::new refused: {}", e));
                return Ok(None);
            }
            return Err(viol(ctx, "session", "constructor-error", format!("ServerSession::new returned Err({}) for an expressible configuration", e)));
        }
    };
    let cli = match CliNode::new(ctx, ccfg, 1, c_clock) {
        Ok(c) => c,
        Err(e) => {
            if mode == DMode::C19 && !cfg.inexpressible.is_empty() {
                ctx.probe("d.refused_inexpressible_value");
                return Ok(None);
            }
            return Err(viol(ctx, "session", "constructor-error", format!("ClientSession::new returned Err({})", e)));
        }
    };
    let mut w = World {
        mode,
        cfg,
        cli,
        srv,
        c2s: Link::new(Link::draw_mode(ctx)),
        s2c: Link::new(Link::draw_mode(ctx)),
        c2s_hdr_tap: {
            let mut d = RefChunkDecoder::new(false);
            d.record_chunks = true;
            d
        },
        s2c_hdr_tap: {
            let mut d = RefChunkDecoder::new(false);
            d.record_chunks = true;
            d
        },
        srv_actions: VecDeque::new(),
        cli_phase: CliPhase::Start,
        cli_accepted: false,
        next_item: 0,
        received_items: 0,
        srv_connect_requested: 0,
        srv_stream_requested: 0,
        finished_events: 0,
        play_sid: None,
        refused: None,
        acts_done: 0,
    };
    w.srv.c.clock = NodeClock::new(w.cfg.s_off_ms);
    w.cli.c.clock = NodeClock::new(w.cfg.c_off_ms);
    w.c2s.small_budget = 4000;
    w.s2c.small_budget = 4000;
    if mode == DMode::C17 {
        w.cli.c.check_ack = true;
        w.srv.c.check_ack = true;
    }
    w.push_s2c(&wire0);
    Ok(Some(w))
}

/// Run the scenario to completion / quiescence.  Extra application calls and clock jumps
/// (C18) are injected through `extra`.
pub fn drive(ctx: &mut Ctx, w: &mut World, mut extra: impl FnMut(&mut Ctx, &mut World) -> RunResult) -> RunResult {
    loop {
        w.next_activity(ctx);
        if w.refused.is_some() || w.complete() {
            break;
        }
        if !ctx.step() {
            return Err(viol(ctx, "liveness", "step-cap", format!("scenario did not finish within {} steps (client phase {:?}, finished events {})", ctx.step_cap, w.cli_phase, w.finished_events)));
        }
        let mut enabled: Vec<u8> = Vec::new();
        if w.c2s.available() > 0 && !w.srv.c.closed {
            enabled.push(0);
        }
        if w.s2c.available() > 0 && !w.cli.c.closed {
            enabled.push(1);
        }
        if !w.srv_actions.is_empty() && !w.srv.c.closed {
            enabled.push(2);
        }
        if w.client_action_enabled() && !w.cli.c.closed {
            enabled.push(3);
        }
        if enabled.is_empty() {
            break;
        }
        extra(ctx, w)?;
        let pick = enabled[ctx.ch.draw("sched.pick", enabled.len() as u64) as usize];
        advance_time(ctx, w.cfg.time_scale);
        {
            // abstract state: (client phase, accepted, finished, items received bucket, pending
            // server actions bucket, windows known on either side, who is enabled)
            use crate::engine::{fnv_new, fnv_u64};
            let mut h = fnv_new();
            h = fnv_u64(h, w.cli_phase as u64);
            h = fnv_u64(h, w.cli_accepted as u64 | (w.finished_events.min(2) as u64) << 1 | (w.cfg.publish as u64) << 3);
            h = fnv_u64(h, w.received_items.min(3) as u64 | (w.srv_actions.len().min(3) as u64) << 2);
            h = fnv_u64(h, w.cli.c.ack.window().is_some() as u64 | (w.srv.c.ack.window().is_some() as u64) << 1);
            h = fnv_u64(h, enabled.iter().fold(0u64, |a, e| a | 1 << *e));
            ctx.state(h);
        }
        match pick {
            0 => w.deliver_c2s(ctx)?,
            1 => w.deliver_s2c(ctx)?,
            2 => w.server_app_step(ctx)?,
            _ => w.client_app_step(ctx)?,
        }
    }
    Ok(())
}

/// C02 end-of-run oracle (also used by C19 for accepted configurations).
pub fn end_oracle(ctx: &mut Ctx, w: &World) -> RunResult {
    if w.refused.is_some() {
        return Ok(());
    }
    if w.srv.c.closed || w.cli.c.closed {
        return Ok(()); // already reported through call_failed
    }
    if !w.complete() {
        return Err(viol(
            ctx,
            "liveness",
            "stalled",
            format!(
                "quiescent but the scenario is incomplete: client phase {:?}, accepted {}, items received {}/{}, finished events {}, connect requests seen {}, stream requests seen {}",
                w.cli_phase,
                w.cli_accepted,
                w.received_items,
                w.cfg.items.len(),
                w.finished_events,
                w.srv_connect_requested,
                w.srv_stream_requested
            ),
        ));
    }
    if w.received_items != w.cfg.items.len() {
        return Err(viol(ctx, "media", "missing-item", format!("{} of {} items were raised on the receiving side (first missing: {})", w.received_items, w.cfg.items.len(), w.cfg.items[w.received_items].brief())));
    }
    Ok(())
}

pub fn run(ctx: &mut Ctx, mode: DMode) -> RunResult {
    run_inner(ctx, mode, false)
}

fn run_inner(ctx: &mut Ctx, mode: DMode, transcripts: bool) -> RunResult {
    ctx.world("D");
    ctx.step_cap = 60_000;
    let cfg = draw_cfg(ctx, mode);
    if mode == DMode::C19 {
        ctx.nontrivial = cfg.edge_values > 0;
    }
    let mut w = match build(ctx, mode, cfg)? {
        Some(w) => w,
        None => return Ok(()),
    };
    if mode != DMode::C19 {
        ctx.nontrivial = !w.cfg.items.is_empty();
    }
    match mode {
        DMode::C02 | DMode::C19 => {
            drive(ctx, &mut w, |_, _| Ok(()))?;
            // let the remaining bytes drain so that a late finished event is seen (the
            // scheduler stops at completion; finished is raised by the deleteStream delivery)
            end_oracle(ctx, &w)?;
            if w.finished_events > w.acts_done + 1 {
                return Err(viol(ctx, "workflow", "finished-twice", format!("{} finished events for {} stops", w.finished_events, w.acts_done + 1)));
            }
            if !w.cfg.publish {
                ctx.probe("d.play_scenario");
            } else {
                ctx.probe("d.publish_scenario");
            }
            if mode == DMode::C19 {
                transcript::check_announced(ctx, &w.srv.c, w.cfg.s_chunk, w.cfg.s_win, Some(w.cfg.bw))?;
                transcript::check_announced(ctx, &w.cli.c, w.cfg.c_chunk, w.cfg.c_win, None)?;
            }
            if transcripts {
                for node in [&w.srv.c, &w.cli.c] {
                    transcript::check(ctx, node)?;
                }
                ctx.probe("c18.edge_configuration_transcripts");
            }
        }
        DMode::C17 => {
            drive(ctx, &mut w, |_, _| Ok(()))?;
            ctx.probe_n("d.acks_checked", w.cli.c.ack.acks_seen + w.srv.c.ack.acks_seen);
            ctx.nontrivial = w.cli.c.ack.calls_with_window + w.srv.c.ack.calls_with_window > 0;
        }
        DMode::C18 => {
            let mut jumps_left = 2;
            let mut extras_left = 4;
            drive(ctx, &mut w, |ctx, w| {
                // clock jump fault
                if jumps_left > 0 && ctx.ch.chance("fault.kind", 1, 25) {
                    jumps_left -= 1;
                    let back = ctx.ch.chance("clock.jumpdir", 1, 2);
                    let mag_ms = match ctx.ch.weighted("clock.jump", &[2, 2, 2, 1]) {
                        0 => ctx.ch.draw("clock.jumpv", 5_000),
                        1 => 1 << 24,
                        2 => 1u64 << 32,
                        _ => ctx.ch.draw("clock.jumpv", 1u64 << 33),
                    } as i128;
                    let delta = mag_ms * 1_000_000 * if back { -1 } else { 1 };
                    if ctx.ch.chance("clock.jumpnode", 1, 2) {
                        w.srv.c.clock.jump_ns += delta;
                    } else {
                        w.cli.c.clock.jump_ns += delta;
                    }
                    ctx.fault(if back { "clock_jump_backward" } else { "clock_jump_forward" });
                    ctx.tr(|| format!("    FAULT clock jump {} ms", delta / 1_000_000));
                }
                // extra application calls (pings, refused calls)
                if extras_left > 0 && ctx.ch.chance("op.extra", 1, 12) {
                    extras_left -= 1;
                    match ctx.ch.draw("op.extrak", 5) {
                        0 => {
                            if let Ok(out) = w.srv.app_packet(ctx, Want::OnStreams { type_ids: &[4], msids: vec![0] }, |s| s.send_ping_request().map(|(p, _)| p)) {
                                w.push_s2c(&out.wire);
                                ctx.probe("d.server_ping");
                            }
                        }
                        1 => {
                            if let Ok(out) = w.cli.app_packet(ctx, Want::OnStreams { type_ids: &[4], msids: vec![0] }, |s| s.send_ping_request().map(|(p, _)| p)) {
                                w.push_c2s(&out.wire);
                                ctx.probe("d.client_ping");
                            }
                        }
                        2 => {
                            // refused when not publishing; otherwise an extra frame outside the script is not sent
                            if w.cli_phase != CliPhase::Active {
                                let r = w.cli.app_result(ctx, Want::OnStreams { type_ids: &[9], msids: vec![] }, |s| s.publish_video_data(Bytes::from(vec![1u8, 2, 3]), RtmpTimestamp::new(5), false));
                                if r.is_err() {
                                    ctx.probe("d.refused_app_call");
                                }
                            }
                        }
                        3 => {
                            let r = w.srv.app_results(ctx, &|_| Want::OnStreams { type_ids: &[20], msids: vec![0] }, |s| s.accept_request(9999));
                            if r.is_err() {
                                ctx.probe("d.refused_app_call");
                            }
                        }
                        _ => {
                            let r = w.srv.app_results(ctx, &|_| Want::OnStreams { type_ids: &[20], msids: vec![0] }, |s| s.reject_request(7777, "c", "d"));
                            if r.is_err() {
                                ctx.probe("d.refused_app_call");
                            }
                        }
                    }
                }
                Ok(())
            })?;
            for node in [&w.srv.c, &w.cli.c] {
                transcript::check(ctx, node)?;
            }
            for now in [w.cli.c.clock.uptime_ms(ctx.now_ns), w.srv.c.clock.uptime_ms(ctx.now_ns)] {
                if now >= 1 << 24 {
                    ctx.probe("d.uptime_past_2^24ms");
                }
                if now >= 1u64 << 32 {
                    ctx.probe("d.uptime_past_2^32ms");
                }
            }
        }
    }
    let _ = CONTROL_TYPES;
    Ok(())
}
