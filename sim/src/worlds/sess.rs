//! Session nodes: real `ServerSession` / `ClientSession` wrapped with a node clock (hook H2),
//! allocation tagging, an output transcript (every packet returned by every public call, in call
//! order, with what the application asked for), an output tap (strict reference decoder), an
//! input tap and the AckModel.

use crate::engine::{fnv_bytes, fnv_new, Ctx, NodeMem, Violation};
use crate::models::ack::AckModel;
use crate::refs::chunk::{RefChunkDecoder, RefMsg};
use rml_rtmp::chunk_io::Packet;
use rml_rtmp::sessions::{
    ClientSession, ClientSessionConfig, ClientSessionError, ClientSessionEvent, ClientSessionResult, ServerSession,
    ServerSessionConfig, ServerSessionError, ServerSessionEvent, ServerSessionResult,
};

#[derive(Clone, Debug)]
pub struct NodeClock {
    pub offset_ns: u64,
    pub jump_ns: i128,
}

impl NodeClock {
    pub fn new(offset_ms: u64) -> NodeClock {
        NodeClock { offset_ns: offset_ms.saturating_mul(1_000_000), jump_ns: 0 }
    }
    /// Sessions are constructed at node time BASE_NS (not 0) so that a backward clock jump can
    /// put the clock *before* the session's start (the `elapsed() == Err` branch).
    pub const BASE_NS: u64 = 1 << 60;

    pub fn uptime_ms(&self, sim_now: u64) -> u64 {
        self.node_time(sim_now).saturating_sub(Self::BASE_NS) / 1_000_000
    }

    pub fn node_time(&self, sim_now: u64) -> u64 {
        let t = Self::BASE_NS as i128 + sim_now as i128 + self.offset_ns as i128 + self.jump_ns;
        if t < 0 {
            0
        } else if t > u64::MAX as i128 {
            u64::MAX
        } else {
            t as u64
        }
    }
}

/// What the application asked for when the call that produced a packet was made.
#[derive(Clone, Debug)]
pub enum Want {
    /// control / command / data message on one of these message streams
    OnStreams { type_ids: &'static [u8], msids: Vec<u32> },
    /// media whose stream the harness cannot pin down (the guiding model stopped following):
    /// content exact, message stream one of these
    MediaOn { type_id: u8, msids: Vec<u32>, ts: u32, len: usize, hash: u64, droppable: bool },
    /// exact media message
    Media { type_id: u8, msid: u32, ts: u32, len: usize, hash: u64, droppable: bool },
    /// anything returned by handle_input: on stream 0 or on a stream the call's input mentions
    Reaction,
}

#[derive(Clone, Debug)]
pub struct PacketRec {
    pub bytes: Vec<u8>,
    pub droppable: bool,
    pub want: Want,
    pub call_no: u64,
    /// message streams seen in the input of the call that produced this packet (for Reaction)
    pub input_msids: Vec<u32>,
}

pub fn payload_hash(b: &[u8]) -> u64 {
    fnv_bytes(fnv_new(), b)
}

pub struct Common {
    pub name: &'static str,
    pub clock: NodeClock,
    pub mem: NodeMem,
    pub out: Vec<PacketRec>,
    pub out_tap: RefChunkDecoder,
    pub out_tap_failed: bool,
    pub in_tap: RefChunkDecoder,
    pub in_tap_failed: bool,
    pub in_offset: u64,
    pub ack: AckModel,
    pub check_ack: bool,
    pub closed: bool,
    pub calls: u64,
    pub rx_bytes: u64,
    /// stream ids a createStream result mentioned in this node's input (client) / output (server)
    pub known_sids: Vec<u32>,
    /// messages the input tap completed in the most recent handle_input call
    pub last_in: Vec<RefMsg>,
    /// the peer has announced an acknowledgement window (or the tap lost track): from then on
    /// any input call may serialize an Acknowledgement
    pub peer_window_seen: bool,
}

impl Common {
    pub fn new(name: &'static str, tag: u32, clock: NodeClock) -> Common {
        Common {
            name,
            clock,
            mem: NodeMem::new(tag),
            out: Vec::new(),
            out_tap: RefChunkDecoder::new(true),
            out_tap_failed: false,
            in_tap: RefChunkDecoder::new(false),
            in_tap_failed: false,
            in_offset: 0,
            ack: AckModel::new(),
            check_ack: false,
            closed: false,
            calls: 0,
            rx_bytes: 0,
            known_sids: Vec::new(),
            last_in: Vec::new(),
            peer_window_seen: false,
        }
    }

    pub fn set_clock(&self, ctx: &mut Ctx) {
        let t = self.clock.node_time(ctx.now_ns);
        if t < NodeClock::BASE_NS {
            ctx.probe("clock.before_session_start");
        }
        rml_rtmp::verif_hooks::set_clock_ns(t);
    }

    /// Record the packets one call returned (in production order) and decode them with the
    /// output tap.  Returns the decoded messages of this call (empty once the tap failed; the
    /// C18 oracle re-decodes the whole transcript and reports that).
    pub fn record(&mut self, ctx: &mut Ctx, packets: Vec<Packet>, want: &dyn Fn(usize) -> Want, input_msids: &[u32]) -> Vec<RefMsg> {
        self.calls += 1;
        let mut decoded = Vec::new();
        for (i, p) in packets.into_iter().enumerate() {
            ctx.ev_bytes(90, &p.bytes);
            if !self.out_tap_failed {
                match self.out_tap.feed(&p.bytes) {
                    Ok(mut v) => decoded.append(&mut v),
                    Err(_) => self.out_tap_failed = true,
                }
            }
            self.out.push(PacketRec {
                bytes: p.bytes,
                droppable: p.can_be_dropped,
                want: want(i),
                call_no: self.calls,
                input_msids: input_msids.to_vec(),
            });
        }
        decoded
    }

    /// Decode the input segment with the input tap: (messages, end offsets relative to the
    /// segment start).
    pub fn tap_input(&mut self, seg: &[u8]) -> Vec<(RefMsg, u64)> {
        let start = self.in_offset;
        self.in_offset += seg.len() as u64;
        self.last_in.clear();
        if self.in_tap_failed {
            return Vec::new();
        }
        match self.in_tap.feed(seg) {
            Ok(v) => {
                let ends = self.in_tap.last_ends.clone();
                if v.iter().any(|m| m.type_id == 5) {
                    self.peer_window_seen = true;
                }
                self.last_in = v.clone();
                v.into_iter().zip(ends.into_iter()).map(|(m, e)| (m, e.saturating_sub(start))).collect()
            }
            Err(_) => {
                self.in_tap_failed = true;
                self.peer_window_seen = true;
                Vec::new()
            }
        }
    }

    /// Nothing is buffered in the input tap: the bytes delivered so far end on a message boundary.
    pub fn in_tap_clean(&self) -> bool {
        !self.in_tap_failed && self.in_tap.pending_bytes() == 0 && self.in_tap.messages_in_progress() == 0
    }

    /// AckModel step for one successful handle_input call.
    pub fn ack_step(&mut self, ctx: &mut Ctx, n: usize, out_msgs: &[RefMsg], in_msgs: &[(RefMsg, u64)]) -> Result<(), Violation> {
        if !self.check_ack {
            return Ok(());
        }
        let acks: Vec<u32> = out_msgs
            .iter()
            .filter(|m| m.type_id == 3 && m.payload.len() == 4)
            .map(|m| u32::from_be_bytes([m.payload[0], m.payload[1], m.payload[2], m.payload[3]]))
            .collect();
        let windows: Vec<(u32, u64)> = in_msgs
            .iter()
            .filter(|(m, _)| m.type_id == 5 && m.payload.len() == 4)
            .map(|(m, end)| (u32::from_be_bytes([m.payload[0], m.payload[1], m.payload[2], m.payload[3]]), (n as u64).saturating_sub(*end)))
            .collect();
        if !acks.is_empty() {
            ctx.probe("ack.emitted");
        }
        if !windows.is_empty() && self.ack.window().is_some() {
            ctx.probe("ack.window_reannounced");
        }
        if n == 0 {
            ctx.probe("ack.empty_call");
        }
        if let Some(w) = self.ack.window() {
            if n as u64 > 2 * w as u64 && w > 0 {
                ctx.probe("ack.call_much_larger_than_window");
            }
        }
        let name = self.name;
        self.ack.step(n as u64, &acks, &windows).map_err(|(class, e)| {
            Violation::new(format!("{}/ackmodel/{}", ctx.prop, class), format!("{} session: {}", name, e))
        })
    }
}

fn split_server(results: Vec<ServerSessionResult>) -> (Vec<Packet>, Vec<ServerSessionEvent>, Vec<u8>) {
    let mut packets = Vec::new();
    let mut events = Vec::new();
    let mut order = Vec::new();
    for r in results {
        match r {
            ServerSessionResult::OutboundResponse(p) => {
                packets.push(p);
                order.push(0);
            }
            ServerSessionResult::RaisedEvent(e) => {
                events.push(e);
                order.push(1);
            }
            ServerSessionResult::UnhandleableMessageReceived(_) => {}
            // a result kind added to the library later must not break the build of the checks
            #[allow(unreachable_patterns)]
            _ => {}
        }
    }
    (packets, events, order)
}

fn split_client(results: Vec<ClientSessionResult>) -> (Vec<Packet>, Vec<ClientSessionEvent>, Vec<u8>) {
    let mut packets = Vec::new();
    let mut events = Vec::new();
    let mut order = Vec::new();
    for r in results {
        match r {
            ClientSessionResult::OutboundResponse(p) => {
                packets.push(p);
                order.push(0);
            }
            ClientSessionResult::RaisedEvent(e) => {
                events.push(e);
                order.push(1);
            }
            ClientSessionResult::UnhandleableMessageReceived(_) => {}
            // a result kind added to the library later must not break the build of the checks
            #[allow(unreachable_patterns)]
            _ => {}
        }
    }
    (packets, events, order)
}

pub struct CallOut<E> {
    pub wire: Vec<Vec<u8>>,
    pub events: Vec<E>,
    pub decoded: Vec<RefMsg>,
    pub in_msgs: Vec<(RefMsg, u64)>,
    /// production order of the results: 0 = packet, 1 = event
    pub order: Vec<u8>,
}

impl<E> CallOut<E> {
    pub fn empty() -> CallOut<E> {
        CallOut { wire: Vec::new(), events: Vec::new(), decoded: Vec::new(), in_msgs: Vec::new(), order: Vec::new() }
    }
}

pub const CONTROL_TYPES: &[u8] = &[1, 2, 3, 4, 5, 6];

pub struct SrvNode {
    pub c: Common,
    pub sess: Option<ServerSession>,
}

impl SrvNode {
    /// Construct the session (may be refused).  Returns the initial wire bytes.
    pub fn new(ctx: &mut Ctx, cfg: ServerSessionConfig, tag: u32, clock: NodeClock) -> Result<(SrvNode, Vec<Vec<u8>>), (SrvNode, ServerSessionError)> {
        let mut c = Common::new("server", tag, clock);
        c.set_clock(ctx);
        match ServerSession::new(cfg) {
            Ok((sess, results)) => {
                let (packets, _, _) = split_server(results);
                let wire: Vec<Vec<u8>> = packets.iter().map(|p| p.bytes.clone()).collect();
                c.record(ctx, packets, &|_| Want::OnStreams { type_ids: &[1, 4, 5, 6, 20], msids: vec![0] }, &[]);
                Ok((SrvNode { c, sess: Some(sess) }, wire))
            }
            Err(e) => Err((SrvNode { c, sess: None }, e)),
        }
    }

    pub fn handle_input(&mut self, ctx: &mut Ctx, seg: &[u8]) -> Result<Result<CallOut<ServerSessionEvent>, ServerSessionError>, Violation> {
        self.c.set_clock(ctx);
        self.c.rx_bytes += seg.len() as u64;
        let sess = self.sess.as_mut().unwrap();
        let r = self.c.mem.call(ctx, seg.len(), || sess.handle_input(seg))?;
        let in_msgs = self.c.tap_input(seg);
        match r {
            Err(e) => {
                self.c.closed = true;
                Ok(Err(e))
            }
            Ok(results) => {
                let (packets, events, order) = split_server(results);
                let wire: Vec<Vec<u8>> = packets.iter().map(|p| p.bytes.clone()).collect();
                let mut input_msids: Vec<u32> = in_msgs.iter().map(|(m, _)| m.msid).collect();
                input_msids.push(0);
                // a reaction may also address any stream this server has created: a command on
                // stream 0 can refer to one by number (deleteStream), and servers answer there
                input_msids.extend(self.c.known_sids.iter().copied());
                let decoded = self.c.record(ctx, packets, &|_| Want::Reaction, &input_msids);
                for m in decoded.iter() {
                    // remember stream ids handed out by createStream results
                    if m.type_id == 20 || m.type_id == 17 {
                        if let Ok(crate::refs::msg::Body::Command { name, args, .. }) = crate::refs::msg::decode_lenient(m) {
                            if name == "_result" {
                                if let Some(crate::refs::amf0::AV::Num(n)) = args.first() {
                                    self.c.known_sids.push(*n as u32);
                                }
                            }
                        }
                    }
                }
                self.c.ack_step(ctx, seg.len(), &decoded, &in_msgs)?;
                Ok(Ok(CallOut { wire, events, decoded, in_msgs, order }))
            }
        }
    }

    /// An application call returning a result list.
    pub fn app_results(
        &mut self,
        ctx: &mut Ctx,
        want: &dyn Fn(usize) -> Want,
        f: impl FnOnce(&mut ServerSession) -> Result<Vec<ServerSessionResult>, ServerSessionError>,
    ) -> Result<CallOut<ServerSessionEvent>, ServerSessionError> {
        self.c.set_clock(ctx);
        let sess = self.sess.as_mut().unwrap();
        let results = f(sess)?;
        let (packets, events, order) = split_server(results);
        let wire: Vec<Vec<u8>> = packets.iter().map(|p| p.bytes.clone()).collect();
        let decoded = self.c.record(ctx, packets, want, &[]);
        Ok(CallOut { wire, events, decoded, in_msgs: Vec::new(), order })
    }

    /// An application call returning one packet.
    pub fn app_packet(
        &mut self,
        ctx: &mut Ctx,
        want: Want,
        f: impl FnOnce(&mut ServerSession) -> Result<Packet, ServerSessionError>,
    ) -> Result<CallOut<ServerSessionEvent>, ServerSessionError> {
        self.c.set_clock(ctx);
        let sess = self.sess.as_mut().unwrap();
        let p = f(sess)?;
        let wire = vec![p.bytes.clone()];
        let decoded = self.c.record(ctx, vec![p], &|_| want.clone(), &[]);
        Ok(CallOut { wire, events: Vec::new(), decoded, in_msgs: Vec::new(), order: vec![0] })
    }
}

pub struct CliNode {
    pub c: Common,
    pub sess: ClientSession,
}

impl CliNode {
    pub fn new(ctx: &mut Ctx, cfg: ClientSessionConfig, tag: u32, clock: NodeClock) -> Result<CliNode, ClientSessionError> {
        let c = Common::new("client", tag, clock);
        c.set_clock(ctx);
        let (sess, _results) = ClientSession::new(cfg)?;
        Ok(CliNode { c, sess })
    }

    pub fn handle_input(&mut self, ctx: &mut Ctx, seg: &[u8]) -> Result<Result<CallOut<ClientSessionEvent>, ClientSessionError>, Violation> {
        self.c.set_clock(ctx);
        self.c.rx_bytes += seg.len() as u64;
        let sess = &mut self.sess;
        let r = self.c.mem.call(ctx, seg.len(), || sess.handle_input(seg))?;
        let in_msgs = self.c.tap_input(seg);
        for (m, _) in in_msgs.iter() {
            if m.type_id == 20 || m.type_id == 17 {
                if let Ok(crate::refs::msg::Body::Command { name, args, .. }) = crate::refs::msg::decode_lenient(m) {
                    if name == "_result" {
                        if let Some(crate::refs::amf0::AV::Num(n)) = args.first() {
                            self.c.known_sids.push(*n as u32);
                        }
                    }
                }
            }
        }
        match r {
            Err(e) => {
                self.c.closed = true;
                Ok(Err(e))
            }
            Ok(results) => {
                let (packets, events, order) = split_client(results);
                let wire: Vec<Vec<u8>> = packets.iter().map(|p| p.bytes.clone()).collect();
                let mut input_msids: Vec<u32> = in_msgs.iter().map(|(m, _)| m.msid).collect();
                input_msids.push(0);
                input_msids.extend(self.c.known_sids.iter().copied());
                let decoded = self.c.record(ctx, packets, &|_| Want::Reaction, &input_msids);
                self.c.ack_step(ctx, seg.len(), &decoded, &in_msgs)?;
                Ok(Ok(CallOut { wire, events, decoded, in_msgs, order }))
            }
        }
    }

    pub fn app_result(
        &mut self,
        ctx: &mut Ctx,
        want: Want,
        f: impl FnOnce(&mut ClientSession) -> Result<ClientSessionResult, ClientSessionError>,
    ) -> Result<CallOut<ClientSessionEvent>, ClientSessionError> {
        self.c.set_clock(ctx);
        let r = f(&mut self.sess)?;
        let (packets, events, order) = split_client(vec![r]);
        let wire: Vec<Vec<u8>> = packets.iter().map(|p| p.bytes.clone()).collect();
        let decoded = self.c.record(ctx, packets, &|_| want.clone(), &[]);
        Ok(CallOut { wire, events, decoded, in_msgs: Vec::new(), order })
    }

    pub fn app_results(
        &mut self,
        ctx: &mut Ctx,
        want: Want,
        f: impl FnOnce(&mut ClientSession) -> Result<Vec<ClientSessionResult>, ClientSessionError>,
    ) -> Result<CallOut<ClientSessionEvent>, ClientSessionError> {
        self.c.set_clock(ctx);
        let r = f(&mut self.sess)?;
        let (packets, events, order) = split_client(r);
        let wire: Vec<Vec<u8>> = packets.iter().map(|p| p.bytes.clone()).collect();
        let decoded = self.c.record(ctx, packets, &|_| want.clone(), &[]);
        Ok(CallOut { wire, events, decoded, in_msgs: Vec::new(), order })
    }

    pub fn app_packet(
        &mut self,
        ctx: &mut Ctx,
        want: Want,
        f: impl FnOnce(&mut ClientSession) -> Result<Packet, ClientSessionError>,
    ) -> Result<CallOut<ClientSessionEvent>, ClientSessionError> {
        self.c.set_clock(ctx);
        let p = f(&mut self.sess)?;
        let wire = vec![p.bytes.clone()];
        let decoded = self.c.record(ctx, vec![p], &|_| want.clone(), &[]);
        Ok(CallOut { wire, events: Vec::new(), decoded, in_msgs: Vec::new(), order: vec![0] })
    }
}
