//! C15 -- results do not depend on how the input byte stream is split across calls.
//! Differential: ONE byte stream is fed to four fresh instances through four partitions
//! (one call; byte by byte; a PRNG partition; a PRNG partition biased to cuts inside headers).

use crate::engine::{Ctx, NodeMem, RunResult, Violation};
use crate::link::{self, Link, SegMode};
use crate::refs::chunk::{RefChunkDecoder, RefMsg};
use crate::worlds::{a, b};
use rml_rtmp::chunk_io::{ChunkDeserializationError, ChunkDeserializer};

#[derive(Debug, Clone, PartialEq, Eq)]
pub enum Outcome {
    End,
    Err(String),
}

pub fn err_variant(e: &ChunkDeserializationError) -> String {
    match e {
        ChunkDeserializationError::NoPreviousChunkOnStream { csid } => format!("NoPreviousChunkOnStream(csid={})", csid),
        ChunkDeserializationError::InvalidMaxChunkSize { chunk_size } => format!("InvalidMaxChunkSize({})", chunk_size),
        ChunkDeserializationError::Io(_) => "Io".to_string(),
        // a variant added to the library later must not break the build of the checks
        #[allow(unreachable_patterns)]
        _ => "other-variant".to_string(),
    }
}

/// Standard deserializer driver: feed segments, loop with empty slices, honour SetChunkSize.
/// `on_msg` sees every delivered message.
pub fn drive_deser(
    ctx: &mut Ctx,
    stream: &[u8],
    seg_lens: &[usize],
    mem_tag: u32,
    trace_tag: &str,
    mut on_msg: impl FnMut(&mut Ctx, &rml_rtmp::messages::MessagePayload, &mut NodeMem) -> RunResult,
) -> Result<(Vec<RefMsg>, Outcome, usize), Violation> {
    let mut de = ChunkDeserializer::new();
    let mut mem = NodeMem::new(mem_tag);
    let mut msgs = Vec::new();
    let mut pos = 0usize;
    for &n in seg_lens {
        let n = n.min(stream.len() - pos);
        let seg = &stream[pos..pos + n];
        pos += n;
        ctx.steps += 1;
        let mut input: &[u8] = seg;
        loop {
            let r = mem.call(ctx, input.len(), || de.get_next_message(input))?;
            input = &[];
            match r {
                Ok(Some(p)) => {
                    on_msg(ctx, &p, &mut mem)?;
                    let m = RefMsg {
                        type_id: p.type_id,
                        msid: p.message_stream_id,
                        ts: p.timestamp.value,
                        payload: p.data.to_vec(),
                    };
                    ctx.tr(|| format!("    [{}] -> message {}", trace_tag, m.brief()));
                    if m.type_id == 1 && m.payload.len() >= 4 {
                        let v = u32::from_be_bytes([m.payload[0], m.payload[1], m.payload[2], m.payload[3]]) & 0x7FFF_FFFF;
                        if let Err(e) = de.set_max_chunk_size(v as usize) {
                            msgs.push(m);
                            return Ok((msgs, Outcome::Err(format!("set_max_chunk_size:{}", err_variant(&e))), pos));
                        }
                    }
                    msgs.push(m);
                }
                Ok(None) => break,
                Err(e) => {
                    ctx.tr(|| format!("    [{}] -> Err({}) in the call ending at offset {}", trace_tag, e, pos));
                    return Ok((msgs, Outcome::Err(err_variant(&e)), pos));
                }
            }
        }
        if pos >= stream.len() {
            break;
        }
    }
    Ok((msgs, Outcome::End, pos))
}

/// Build the four partitions (as segment-length lists) of a stream of `pieces`.
pub fn four_partitions(ctx: &mut Ctx, pieces: &[Vec<u8>]) -> Vec<(&'static str, Vec<usize>)> {
    let total: usize = pieces.iter().map(|p| p.len()).sum();
    let mut out = Vec::new();
    out.push(("one-call", vec![total]));
    out.push(("byte-by-byte", vec![1usize; total]));
    for (name, mode) in [("prng", SegMode::Mixed), ("prng-header-cuts", SegMode::HeaderCuts)] {
        let mut link = Link::new(mode);
        link.small_budget = 6000;
        let mut dec = RefChunkDecoder::new(false);
        dec.record_chunks = true;
        for p in pieces {
            link.push(p);
            let _ = dec.feed(p);
        }
        for c in dec.chunks.iter() {
            link.note_header(c.off, c.hdr_len);
        }
        let mut lens = Vec::new();
        while link.available() > 0 {
            let seg = link.next_segment(ctx);
            ctx.sched(5, (name.len() as u64) & 1, Ctx::bucket_len(seg.len()));
            lens.push(seg.len());
        }
        out.push((name, lens));
    }
    out
}

pub fn run_deser(ctx: &mut Ctx) -> RunResult {
    ctx.world("B/A-differential");
    // choose the stream source: 0 library-produced, 1 foreign sequential, 2 foreign multiplexed
    let src = ctx.ch.weighted("cfg.source", &[3, 3, 2]);
    let mut pieces: Vec<Vec<u8>> = match src {
        0 => {
            let k = a::Knobs::draw(ctx, a::AMode::C01);
            let mut s = a::Sender::new();
            let mut ops = 0;
            while ops < 10 {
                if !s.step(ctx, &k, a::AMode::C01)? {
                    break;
                }
                ops += 1;
            }
            ctx.probe("c15.library_stream");
            s.script.packets.into_iter().map(|p| p.bytes).collect()
        }
        1 => {
            let k = b::BKnobs::draw(ctx, 1);
            ctx.probe("c15.foreign_stream");
            b::gen_stream(ctx, &k, 8).pieces
        }
        _ => {
            let k = b::BKnobs::draw(ctx, 3);
            ctx.probe("c15.foreign_multiplexed_stream");
            b::gen_stream(ctx, &k, 6).pieces
        }
    };
    // optionally mutate (the "invalid stream" case)
    let n_mut = ctx.ch.weighted("fault.kind", &[3, 2, 1, 1]);
    if n_mut > 0 && !pieces.is_empty() {
        let mut flat: Vec<u8> = pieces.concat();
        for _ in 0..n_mut {
            let kind = ctx.ch.draw("fault.arg.kind", link::HOSTILE_KINDS.len() as u64) as usize;
            let hist = flat.clone();
            link::mutate(ctx, kind, &mut flat, &hist);
        }
        pieces = vec![flat];
        ctx.probe("c15.mutated_stream");
    }
    let stream: Vec<u8> = pieces.concat();
    if stream.len() >= 20 {
        ctx.nontrivial = true;
    }
    ctx.ev_bytes(50, &stream);
    let parts = four_partitions(ctx, &pieces);
    let mut results: Vec<(&'static str, Vec<RefMsg>, Outcome)> = Vec::new();
    for (name, lens) in parts.iter() {
        ctx.tr(|| format!("  partition {}: {} calls over {} bytes", name, lens.len(), stream.len()));
        let (msgs, outcome, _) = drive_deser(ctx, &stream, lens, 1, name, |_, _, _| Ok(()))?;
        ctx.ev(51, msgs.len() as u64, matches!(outcome, Outcome::End) as u64);
        results.push((name, msgs, outcome));
    }
    let (n0, m0, o0) = &results[0];
    if let Outcome::Err(_) = o0 {
        ctx.probe("c15.stream_ends_in_error");
    }
    for (n, m, o) in results.iter().skip(1) {
        if m.len() != m0.len() {
            return Err(Violation::new(
                "C15/deser-differential/message-count-differs",
                format!("partition {} delivered {} messages, partition {} delivered {}", n0, m0.len(), n, m.len()),
            ));
        }
        for i in 0..m.len() {
            if m[i] != m0[i] {
                return Err(Violation::new(
                    "C15/deser-differential/message-differs",
                    format!("message #{}: partition {} [{}] vs partition {} [{}]", i, n0, m0[i].brief(), n, m[i].brief()),
                ));
            }
        }
        if o != o0 {
            return Err(Violation::new(
                "C15/deser-differential/outcome-differs",
                format!("partition {} ended with {:?}, partition {} with {:?}", n0, o0, n, o),
            ));
        }
    }
    Ok(())
}

/// One input call of a session instance: byte range, outputs (events and decoded outbound
/// messages except Acknowledgements, as strings), error if the call failed.
#[derive(Debug, Clone)]
pub struct CallRec {
    pub start: usize,
    pub end: usize,
    pub outs: Vec<String>,
    pub err: Option<String>,
}

/// Compare session instances.  results[1] must be the byte-by-byte instance (the ruler).
pub fn compare_sessions(ctx: &mut Ctx, oracle: &str, results: &[(&'static str, Vec<CallRec>)]) -> RunResult {
    let prop = ctx.prop;
    let ruler = &results[1].1;
    // ruler: outputs stamped with the offset of the byte that produced them; error offset
    let mut stamped: Vec<(usize, &String)> = Vec::new();
    let mut err_at: Option<(usize, &String)> = None;
    for c in ruler.iter() {
        for o in c.outs.iter() {
            stamped.push((c.start, o));
        }
        if let Some(e) = &c.err {
            err_at = Some((c.start, e));
            break;
        }
    }
    if err_at.is_some() {
        ctx.probe("c15.session_stream_ends_in_error");
    }
    for (name, calls) in results.iter() {
        if *name == results[1].0 {
            continue;
        }
        let mut flat: Vec<&String> = Vec::new();
        let mut failed: Option<&CallRec> = None;
        for c in calls.iter() {
            if c.err.is_some() {
                failed = Some(c);
                break;
            }
            flat.extend(c.outs.iter());
        }
        match (err_at, failed) {
            (None, None) => {
                let want: Vec<&String> = stamped.iter().map(|(_, o)| *o).collect();
                if flat != want {
                    let i = flat.iter().zip(want.iter()).position(|(a, b)| a != b).unwrap_or(flat.len().min(want.len()));
                    return Err(Violation::new(
                        format!("{}/{}/output-differs", prop, oracle),
                        format!("partition {} and byte-by-byte disagree at output #{}: {:?} vs {:?} ({} vs {} outputs)", name, i, flat.get(i), want.get(i), flat.len(), want.len()),
                    ));
                }
            }
            (Some((e_off, e)), Some(c)) => {
                if !(c.start <= e_off && e_off < c.end.max(c.start + 1)) {
                    return Err(Violation::new(
                        format!("{}/{}/error-position-differs", prop, oracle),
                        format!("byte-by-byte fails at byte {} ({}), partition {} fails in the call covering bytes {}..{} ({:?})", e_off, e, name, c.start, c.end, c.err),
                    ));
                }
                // everything delivered by earlier calls must equal the ruler's outputs for those bytes
                let want: Vec<&String> = stamped.iter().filter(|(off, _)| *off < c.start).map(|(_, o)| *o).collect();
                if flat != want {
                    return Err(Violation::new(
                        format!("{}/{}/output-before-error-differs", prop, oracle),
                        format!("partition {} delivered {} outputs before its failing call, byte-by-byte delivered {} for the same bytes", name, flat.len(), want.len()),
                    ));
                }
            }
            (Some((e_off, e)), None) => {
                return Err(Violation::new(
                    format!("{}/{}/error-only-in-some-partitions", prop, oracle),
                    format!("byte-by-byte fails at byte {} ({}) but partition {} processed the whole stream without error", e_off, e, name),
                ));
            }
            (None, Some(c)) => {
                return Err(Violation::new(
                    format!("{}/{}/error-only-in-some-partitions", prop, oracle),
                    format!("partition {} fails in the call covering bytes {}..{} ({:?}) but byte-by-byte processed the whole stream without error", name, c.start, c.end, c.err),
                ));
            }
        }
    }
    Ok(())
}

/// Canonical rendering of a library AMF0 value (object properties sorted by name: the Debug
/// rendering of a HashMap depends on the process-random hasher).
pub fn canon_amf(v: &rml_amf0::Amf0Value) -> String {
    use rml_amf0::Amf0Value as A;
    match v {
        A::Number(n) => format!("Num({:016x})", n.to_bits()),
        A::Boolean(b) => format!("Bool({})", b),
        A::Utf8String(s) => format!("Str({:?})", s),
        A::Null => "Null".to_string(),
        A::Undefined => "Undef".to_string(),
        A::StrictArray(items) => format!("Arr[{}]", items.iter().map(canon_amf).collect::<Vec<_>>().join(",")),
        A::Object(props) => {
            let mut keys: Vec<&String> = props.keys().collect();
            keys.sort();
            format!("Obj{{{}}}", keys.iter().map(|k| format!("{:?}:{}", k, canon_amf(&props[*k]))).collect::<Vec<_>>().join(","))
        }
    }
}

pub fn canon_amf_list(v: &[rml_amf0::Amf0Value]) -> String {
    v.iter().map(canon_amf).collect::<Vec<_>>().join(",")
}

pub fn msg_string(m: &RefMsg) -> String {
    format!("pkt type={} msid={} ts={} len={} hash={:016x}", m.type_id, m.msid, m.ts, m.payload.len(), crate::engine::fnv_bytes(crate::engine::fnv_new(), &m.payload))
}

pub fn run(ctx: &mut Ctx) -> RunResult {
    match ctx.ch.weighted("cfg.world", &[2, 1, 1]) {
        0 => run_deser(ctx),
        1 => crate::worlds::e::run_c15(ctx),
        _ => crate::worlds::f::run_c15(ctx),
    }
}
