//! C18 oracle: everything a session emitted, concatenated in call order with any subset of the
//! droppable packets removed, must be a well-formed chunk stream that a conformant peer decodes
//! into well-formed messages on the expected message streams.

use crate::engine::{Ctx, RunResult, Violation};
use crate::refs::chunk::RefChunkDecoder;
use crate::refs::msg;
use crate::worlds::sess::{payload_hash, Common, Want};

fn check_subset(ctx: &mut Ctx, node: &Common, dropped: &[bool], label: &str) -> RunResult {
    let prop = ctx.prop;
    let mut dec = RefChunkDecoder::new(true);
    for (i, p) in node.out.iter().enumerate() {
        if dropped[i] {
            continue;
        }
        let msgs = match dec.feed(&p.bytes) {
            Ok(v) => v,
            Err(e) => {
                return Err(Violation::new(
                    format!("{}/transcript/{}", prop, e.class),
                    format!("{} session, packet #{} (call {}), drop subset '{}': reference decoder rejected the stream at offset {}: {}", node.name, i, p.call_no, label, e.offset, e.detail),
                ));
            }
        };
        // A packet is the unit that may be dropped, so a droppable packet has to consist of whole
        // messages (removing it must not tear a message apart).  Apart from that the statement
        // speaks about the concatenation, not about single packets: a packet carrying several
        // whole messages is fine, and each message is judged against the expectation of the
        // packet that completed it.
        if p.droppable && (dec.pending_bytes() != 0 || dec.messages_in_progress() != 0 || msgs.is_empty()) {
            return Err(Violation::new(
                format!("{}/transcript/packet-not-one-message", prop),
                format!("{} session, packet #{} (call {}), drop subset '{}': droppable packet decodes to {} complete messages with {} bytes left over", node.name, i, p.call_no, label, msgs.len(), dec.pending_bytes()),
            ));
        }
        if msgs.len() != 1 {
            ctx.probe("c18.packet_with_other_than_one_message");
        }
        if let Want::Media { .. } | Want::MediaOn { .. } = &p.want {
            // exactly the media message the application handed over (control messages may ride along)
            let non_control = msgs.iter().filter(|m| !matches!(m.type_id, 1..=6)).count();
            if non_control != 1 {
                return Err(Violation::new(
                    format!("{}/transcript/media-mismatch", prop),
                    format!("{} session, packet #{} (call {}), drop subset '{}': the packet returned for one media item decodes to {} messages", node.name, i, p.call_no, label, non_control),
                ));
            }
        }
        for m in msgs.iter() {
            let control_msg = matches!(m.type_id, 1..=6);
        // body well-formed for its type
        let body = match msg::decode(m) {
            Ok(b) => b,
            Err(e) => {
                return Err(Violation::new(
                    format!("{}/transcript/malformed-body", prop),
                    format!("{} session, packet #{} (call {}): message [{}] is not well-formed: {}", node.name, i, p.call_no, m.brief(), e),
                ));
            }
        };
        // protocol control on message stream 0 (user control: 0 or the stream it refers to)
        match m.type_id {
            1 | 2 | 3 | 5 | 6 => {
                if m.msid != 0 {
                    return Err(Violation::new(
                        format!("{}/transcript/control-not-on-stream-0", prop),
                        format!("{} session, packet #{}: protocol control message type {} on message stream {}", node.name, i, m.type_id, m.msid),
                    ));
                }
            }
            4 => {
                if let msg::Body::UserControl { event, a, .. } = body {
                    let refers = matches!(event, 0 | 1 | 2 | 3 | 4 | 31 | 32);
                    if m.msid != 0 && !(refers && m.msid == a) {
                        return Err(Violation::new(
                            format!("{}/transcript/control-not-on-stream-0", prop),
                            format!("{} session, packet #{}: user control event {} on message stream {} (refers to {})", node.name, i, event, m.msid, a),
                        ));
                    }
                }
            }
            _ => {}
        }
        // droppable mark only on media the application asked to be droppable
        match &p.want {
            Want::Media { type_id, msid, ts, len, hash, droppable } => {
                // "set only on media the application asked to be droppable": one direction; a
                // session may decline to mark (say, a sequence header) without breaking anything
                if p.droppable && !*droppable {
                    return Err(Violation::new(
                        format!("{}/transcript/droppable-mark", prop),
                        format!("{} session, packet #{}: can_be_dropped={} but the application passed {}", node.name, i, p.droppable, droppable),
                    ));
                }
                if m.type_id != *type_id || m.msid != *msid || m.ts != *ts || m.payload.len() != *len || payload_hash(&m.payload) != *hash {
                    return Err(Violation::new(
                        format!("{}/transcript/media-mismatch", prop),
                        format!("{} session, packet #{} (drop subset '{}'): application sent type {} msid {} ts {} len {}, a conformant peer decodes [{}]", node.name, i, label, type_id, msid, ts, len, m.brief()),
                    ));
                }
            }
            Want::MediaOn { .. } | Want::Media { .. } if control_msg => {}
            Want::MediaOn { type_id, msids, ts, len, hash, droppable } => {
                if p.droppable && !*droppable {
                    return Err(Violation::new(
                        format!("{}/transcript/droppable-mark", prop),
                        format!("{} session, packet #{}: can_be_dropped={} but the application passed {}", node.name, i, p.droppable, droppable),
                    ));
                }
                if m.type_id != *type_id || !msids.contains(&m.msid) || m.ts != *ts || m.payload.len() != *len || payload_hash(&m.payload) != *hash {
                    return Err(Violation::new(
                        format!("{}/transcript/media-mismatch", prop),
                        format!("{} session, packet #{} (drop subset '{}'): application sent type {} on one of {:?} ts {} len {}, a conformant peer decodes [{}]", node.name, i, label, type_id, msids, ts, len, m.brief()),
                    ));
                }
            }
            Want::OnStreams { type_ids, msids } => {
                if p.droppable {
                    return Err(Violation::new(
                        format!("{}/transcript/droppable-mark", prop),
                        format!("{} session, packet #{}: a non-media packet (type {}) is marked droppable", node.name, i, m.type_id),
                    ));
                }
                // protocol control messages may accompany any call (their own rule is "on message
                // stream 0", checked above); the expectation is about commands, data and media
                if !type_ids.is_empty() && !matches!(m.type_id, 1..=6) && !type_ids.contains(&m.type_id) {
                    return Err(Violation::new(
                        format!("{}/transcript/unexpected-message-type", prop),
                        format!("{} session, packet #{} (call {}): message type {} where the call should produce one of {:?}", node.name, i, p.call_no, m.type_id, type_ids),
                    ));
                }
                let control = matches!(m.type_id, 1..=6);
                if !control && !msids.contains(&m.msid) {
                    return Err(Violation::new(
                        format!("{}/transcript/unexpected-message-stream", prop),
                        format!("{} session, packet #{} (call {}, drop subset '{}'): message [{}] decodes on message stream {}, expected one of {:?}", node.name, i, p.call_no, label, m.brief(), m.msid, msids),
                    ));
                }
            }
            Want::Reaction => {
                if p.droppable {
                    return Err(Violation::new(
                        format!("{}/transcript/droppable-mark", prop),
                        format!("{} session, packet #{}: a packet produced by handle_input is marked droppable", node.name, i),
                    ));
                }
                let control = matches!(m.type_id, 1..=6);
                if !control && !p.input_msids.contains(&m.msid) {
                    return Err(Violation::new(
                        format!("{}/transcript/unexpected-message-stream", prop),
                        format!("{} session, packet #{} (call {}, drop subset '{}'): reaction [{}] decodes on message stream {}, which neither is 0 nor appears in the input that caused it {:?}", node.name, i, p.call_no, label, m.brief(), m.msid, p.input_msids),
                    ));
                }
            }
        }
        }
    }
    if let Err(e) = dec.finish() {
        return Err(Violation::new(format!("{}/transcript/{}", prop, e.class), format!("{} session: {}", node.name, e.detail)));
    }
    Ok(())
}

/// Check the node's transcript with: nothing dropped, every droppable packet dropped, and a few
/// sampled subsets (fault `drop_droppable`, evaluated against the same emitted history).
pub fn check(ctx: &mut Ctx, node: &Common) -> RunResult {
    let n = node.out.len();
    let droppable: Vec<usize> = (0..n).filter(|i| node.out[*i].droppable).collect();
    let none = vec![false; n];
    check_subset(ctx, node, &none, "none")?;
    ctx.probe("c18.transcripts_checked");
    ctx.probe_n("c18.packets_checked", n as u64);
    if droppable.is_empty() {
        return Ok(());
    }
    let mut all = vec![false; n];
    for &i in &droppable {
        all[i] = true;
    }
    ctx.stats.faults.entry("drop_droppable").and_modify(|c| *c += droppable.len() as u64).or_insert(droppable.len() as u64);
    check_subset(ctx, node, &all, "all droppable")?;
    let samples = if droppable.len() <= 3 { (1usize << droppable.len()).saturating_sub(2) } else { 4 };
    for s in 0..samples {
        let mut d = vec![false; n];
        let mut cnt = 0u64;
        if droppable.len() <= 3 {
            let mask = s + 1;
            for (b, &i) in droppable.iter().enumerate() {
                if mask >> b & 1 == 1 {
                    d[i] = true;
                    cnt += 1;
                }
            }
        } else {
            for &i in &droppable {
                if ctx.ch.chance("fault.kind", 1, 2) {
                    d[i] = true;
                    cnt += 1;
                }
            }
        }
        ctx.stats.faults.entry("drop_droppable").and_modify(|c| *c += cnt).or_insert(cnt);
        ctx.probe("c18.drop_subsets_checked");
        check_subset(ctx, node, &d, "sampled")?;
    }
    Ok(())
}

/// C19: a configuration value that is accepted is honoured -- what a session announces to its
/// peer (Set Chunk Size, Window Acknowledgement Size, Set Peer Bandwidth) is the configured value,
/// not a silently clamped one.  Only messages that are actually sent are judged (whether and when
/// to announce is the session's business), and chunk sizes of 16,777,215 or more are equivalent.
/// A transcript the reference decoder cannot follow is C18's business and is skipped here.
pub fn check_announced(ctx: &mut Ctx, node: &Common, chunk: u32, window: u32, bandwidth: Option<u32>) -> RunResult {
    let prop = ctx.prop;
    let mut dec = RefChunkDecoder::new(false);
    for p in node.out.iter() {
        let msgs = match dec.feed(&p.bytes) {
            Ok(v) => v,
            Err(_) => return Ok(()),
        };
        for m in msgs.iter() {
            if m.payload.len() < 4 || m.msid != 0 {
                continue;
            }
            let v = u32::from_be_bytes([m.payload[0], m.payload[1], m.payload[2], m.payload[3]]);
            let (what, want, ok) = match m.type_id {
                1 => ("chunk size", chunk, v == chunk || (v >= 0xFF_FFFF && chunk >= 0xFF_FFFF)),
                5 => ("acknowledgement window", window, v == window),
                6 => match bandwidth {
                    Some(b) => ("peer bandwidth", b, v == b),
                    None => continue,
                },
                _ => continue,
            };
            ctx.probe("c19.announced_values_checked");
            if !ok {
                return Err(Violation::new(
                    format!("{}/config/announced-other-than-configured", prop),
                    format!("{} session was configured with {} {} and announces {} to its peer", node.name, what, want, v),
                ));
            }
        }
    }
    Ok(())
}
