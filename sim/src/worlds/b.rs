//! World B -- foreign sender: `RefChunkEncoder` (a specification-conformant sender making free
//! encoder choices, with 1..m multiplexed chunk streams) -> link -> real `ChunkDeserializer`.
//! Serves C06 (m = 1), C16 (m >= 2), the deserializer part of C15 and of C03.

use crate::choice::expand_bytes;
use crate::engine::{fnv_new, fnv_u64, Ctx, RunResult, Violation};
use crate::link::{Link, SegMode};
use crate::refs::chunk::{EncCursor, RefChunkDecoder, RefChunkEncoder, RefMsg};
use crate::worlds::a::receive_and_compare;

pub struct BKnobs {
    pub csid_mode: u64,
    pub type_mode: u64,
    pub msid_mode: u64,
    pub len_mode: u64,
    pub fmt_mode: u64,
    pub setchunk_w: u32,
    pub repeat_num: u64,
    pub m: usize,
    /// chunk-size changes may be emitted while messages are in flight (legal: the new size
    /// applies to every later chunk, of every message)
    pub setchunk_midflight: bool,
}

impl BKnobs {
    pub fn draw(ctx: &mut Ctx, m_max: usize) -> BKnobs {
        let csid_mode = ctx.ch.weighted("cfg.csid", &[3, 3, 3, 2]) as u64;
        let type_mode = ctx.ch.weighted("cfg.types", &[3, 3, 2]) as u64;
        let msid_mode = ctx.ch.weighted("cfg.msid", &[3, 3, 1]) as u64;
        let len_mode = ctx.ch.weighted("cfg.len", &[3, 3, 2]) as u64;
        let fmt_mode = ctx.ch.weighted("cfg.fmt", &[2, 4, 1]) as u64;
        let setchunk_w = [0u32, 1, 3][ctx.ch.weighted("cfg.setchunk", &[2, 3, 2])];
        let repeat_num = [1u64, 0, 3][ctx.ch.weighted("cfg.repeat", &[3, 1, 2])];
        let m = if m_max <= 1 {
            1
        } else {
            2 + ctx.ch.draw("cfg.m", (m_max - 1) as u64) as usize
        };
        let setchunk_midflight = m > 1 && ctx.ch.chance("cfg.midflight", 1, 4);
        BKnobs {
            setchunk_midflight,
            csid_mode,
            type_mode,
            msid_mode,
            len_mode,
            fmt_mode,
            setchunk_w,
            repeat_num,
            m,
        }
    }
}

const EDGE_CSIDS: [u32; 14] = [2, 3, 4, 5, 6, 63, 64, 65, 319, 320, 321, 65598, 65599, 7];

fn draw_csid(ctx: &mut Ctx, k: &BKnobs, avoid: &[u32]) -> u32 {
    // while other chunk streams have a message in flight, sometimes pick an id that a sloppy
    // decoder could confuse with one of them: off by a byte carry (+-256, +-512), by the 64
    // offset, equal in the low 6 / 8 bits, or with swapped id bytes
    if !avoid.is_empty() && k.csid_mode != 0 && ctx.ch.chance("op.arg.csidalias", 1, 4) {
        let base = avoid[ctx.ch.draw("op.arg.csidbase", avoid.len() as u64) as usize];
        let cands: Vec<u32> = [
            base.wrapping_add(256),
            base.wrapping_sub(256),
            base.wrapping_add(512),
            base.wrapping_add(64),
            base.wrapping_sub(64),
            base & 63,
            base & 255,
            (base & 63) + 64,
            64 + (((base.wrapping_sub(64)) & 0xFF) << 8 | ((base.wrapping_sub(64)) >> 8) & 0xFF),
            base ^ 0x100,
            base.wrapping_add(65536 - 64),
        ]
        .iter()
        .copied()
        .filter(|c| *c >= 2 && *c <= 65599 && !avoid.contains(c))
        .collect();
        if !cands.is_empty() {
            ctx.probe("b.csid_alias_candidate");
            return cands[ctx.ch.draw("op.arg.csidcand", cands.len() as u64) as usize];
        }
    }
    for _ in 0..8 {
        let c = match k.csid_mode {
            0 => 3 + ctx.ch.draw("op.arg.csid", 4) as u32,
            1 => *ctx.ch.pick("op.arg.csid", &EDGE_CSIDS),
            2 => match ctx.ch.weighted("op.arg.csidk", &[3, 2, 2, 2]) {
                0 => 3 + ctx.ch.draw("op.arg.csid", 4) as u32,
                1 => *ctx.ch.pick("op.arg.csid", &EDGE_CSIDS),
                2 => ctx.ch.range("op.arg.csid", 2, 400) as u32,
                _ => ctx.ch.range("op.arg.csid", 2, 65599) as u32,
            },
            _ => ctx.ch.range("op.arg.csid", 2, 65599) as u32,
        };
        if !avoid.contains(&c) {
            return c;
        }
    }
    // fall back to the first free small csid
    let mut c = 3;
    while avoid.contains(&c) {
        c += 1;
    }
    c
}

fn draw_chunk_size(ctx: &mut Ctx) -> u32 {
    let k = ctx.ch.weighted("op.arg.csz", &[3, 3, 2, 2, 2, 2, 3, 2, 1, 2, 2, 1]);
    match k {
        0 => 128,
        1 => 1,
        2 => 2,
        3 => 5,
        4 => 127,
        5 => 129,
        6 => ctx.ch.range("op.arg.cszv", 1, 300) as u32,
        7 => 4096,
        8 => 65536,
        9 => 0x7FFF_FFFF,
        10 => *ctx.ch.pick("op.arg.cszv", &[3u32, 4, 255, 256, 257, 65535, 65537, 16_777_215, 16_777_216, 0x7FFF_FFFE]),
        _ => ctx.ch.range("op.arg.cszv", 1, 0x7FFF_FFFF) as u32,
    }
}

fn draw_len(ctx: &mut Ctx, k: &BKnobs, chunk: u32, multi_bias: bool) -> usize {
    let c = chunk.max(1) as u64;
    let class = if multi_bias {
        ctx.ch.weighted("op.arg.lenk", &[1, 1, 1, 6, 2])
    } else {
        match k.len_mode {
            0 => ctx.ch.weighted("op.arg.lenk", &[4, 3, 3, 2, 0]),
            1 => ctx.ch.weighted("op.arg.lenk", &[3, 1, 1, 4, 1]),
            _ => ctx.ch.weighted("op.arg.lenk", &[3, 1, 1, 2, 3]),
        }
    };
    let len = match class {
        0 => ctx.ch.range("op.arg.len", 1, 40),
        1 => 0,
        2 => ctx.ch.range("op.arg.len", 1, 3),
        3 => {
            let kk = ctx.ch.range("op.arg.lenm", 1, 4);
            let d = ctx.ch.draw("op.arg.lend", 3);
            let base = kk.saturating_mul(c);
            if base > 70_000 {
                ctx.ch.range("op.arg.len", 1, 300)
            } else {
                (base + d).saturating_sub(1)
            }
        }
        _ => ctx.ch.range("op.arg.len", 41, 70_000),
    };
    len.min(c.saturating_mul(5_000)).min(16_777_215) as usize
}

/// Draw a message for `csid`, given the encoder's last header there.
fn draw_msg(ctx: &mut Ctx, k: &BKnobs, enc: &RefChunkEncoder, csid: u32, multi_bias: bool) -> RefMsg {
    let prev = enc.prev(csid);
    // "repeat" makes the compressed formats legal
    if let Some((abs, field, len, type_id, msid)) = prev {
        if k.repeat_num > 0 && type_id != 1 && ctx.ch.chance("op.arg.repeat", k.repeat_num, 4) {
            let ts = match ctx.ch.weighted("ts.kind", &[3, 2, 2]) {
                0 => abs.wrapping_add(field),
                1 => abs.wrapping_add(ctx.ch.draw("ts.step", 50) as u32),
                _ => abs,
            };
            let same_len = ctx.ch.chance("op.arg.samelen", 3, 4);
            let l = if same_len {
                len as usize
            } else {
                draw_len(ctx, k, enc.chunk_size, multi_bias)
            };
            let seed = ctx.ch.sub_seed("bytes.seed");
            return RefMsg {
                type_id,
                msid,
                ts,
                payload: expand_bytes(seed, l),
            };
        }
    }
    let mut type_id = match k.type_mode {
        0 => *ctx.ch.pick("op.arg.type", &[9u8, 8]),
        1 => *ctx.ch.pick("op.arg.type", &[9u8, 8, 18, 20, 4, 22, 3, 15, 2, 5, 6]),
        _ => ctx.ch.draw("op.arg.type", 256) as u8,
    };
    if type_id == 1 {
        type_id = 9;
    }
    let msid = match k.msid_mode {
        0 => 1,
        1 => *ctx.ch.pick("op.arg.msid", &[1u32, 0, 2]),
        _ => match ctx.ch.weighted("op.arg.msid", &[2, 1, 3]) {
            0 => 1,
            1 => 0xFFFF_FFFF,
            _ => ctx.ch.draw("op.arg.msidv", 1 << 32) as u32,
        },
    };
    let pabs = prev.map(|p| p.0).unwrap_or(0);
    let ts = match ctx.ch.weighted("ts.kind", &[3, 3, 3, 2, 2, 2]) {
        0 => pabs,
        1 => pabs.wrapping_add(ctx.ch.draw("ts.step", 100) as u32),
        2 => {
            let j = *ctx.ch.pick(
                "ts.step",
                &[0u32, 0xFF_FFFE, 0xFF_FFFF, 0x100_0000, 0x100_0001],
            );
            if ctx.ch.chance("ts.abs", 1, 2) {
                j
            } else {
                pabs.wrapping_add(j)
            }
        }
        3 => pabs.wrapping_add(pabs), // delta == previous absolute (format 3 after format 0)
        4 => {
            if pabs < 0xFFFF_FF00 {
                0xFFFF_FFF0u32.wrapping_add(ctx.ch.draw("ts.step", 32) as u32)
            } else {
                pabs.wrapping_add(ctx.ch.draw("ts.step", 64) as u32)
            }
        }
        _ => ctx.ch.draw("ts.step", 1 << 32) as u32,
    };
    let l = draw_len(ctx, k, enc.chunk_size, multi_bias);
    let seed = ctx.ch.sub_seed("bytes.seed");
    // (not an Abort while several messages are in flight: a sender that aborts a message does
    // not go on sending its chunks, which the multiplexing generator would do)
    let payload = if (2..=6).contains(&type_id) && !(multi_bias && type_id == 2) && ctx.ch.chance("op.arg.semantic", 1, 2) {
        // well-formed protocol control bodies with meaningful values: in particular an Abort
        // message naming a chunk stream that is in use (it must not disturb later messages:
        // nothing is in progress there when messages are sent one after another)
        let used = enc.used_csids();
        let v = if !used.is_empty() && ctx.ch.chance("op.arg.ctlused", 2, 3) {
            used[ctx.ch.draw("op.arg.ctlv", used.len() as u64) as usize]
        } else {
            *ctx.ch.pick("op.arg.ctlv", &[0u32, 1, 2, 3, 0x7FFF_FFFF, 0xFFFF_FFFF])
        };
        ctx.probe("b.semantic_control_body");
        match type_id {
            4 => {
                let mut b = vec![0u8, *ctx.ch.pick("op.arg.evt", &[0u8, 1, 2, 4, 6, 7])];
                b.extend_from_slice(&v.to_be_bytes());
                b
            }
            6 => {
                let mut b = v.to_be_bytes().to_vec();
                b.push(ctx.ch.draw("op.arg.bwlimit", 3) as u8);
                b
            }
            _ => v.to_be_bytes().to_vec(),
        }
    } else {
        expand_bytes(seed, l)
    };
    RefMsg {
        type_id,
        msid,
        ts,
        payload,
    }
}

fn draw_fmt(ctx: &mut Ctx, k: &BKnobs, enc: &RefChunkEncoder, csid: u32, m: &RefMsg) -> u8 {
    let legal = enc.legal_formats(csid, m);
    match k.fmt_mode {
        0 => enc.best_format(csid, m),
        2 => 0,
        _ => {
            // value 0 = most compressed legal format
            let opts: Vec<u8> = (0..4u8).rev().filter(|f| legal[*f as usize]).collect();
            opts[ctx.ch.draw("op.arg.fmt", opts.len() as u64) as usize]
        }
    }
}

pub struct Stream {
    /// wire pieces, one per chunk
    pub pieces: Vec<Vec<u8>>,
    /// messages in completion order
    pub completed: Vec<RefMsg>,
    pub interleaved_switches: u64,
}

fn note_chunk(ctx: &mut Ctx, fmt: u8, csid: u32, ext: bool, first: bool, empty: bool) {
    let mut h = fnv_new();
    h = fnv_u64(h, fmt as u64);
    h = fnv_u64(h, ext as u64);
    h = fnv_u64(h, first as u64);
    h = fnv_u64(h, match csid {
        2..=63 => 1,
        64..=319 => 2,
        _ => 3,
    });
    h = fnv_u64(h, empty as u64);
    ctx.state(h);
    ctx.sched(3, fmt as u64 | (ext as u64) << 2 | (first as u64) << 3, csid as u64);
    if first {
        match fmt {
            1 => ctx.probe("b.fmt1"),
            2 => ctx.probe("b.fmt2"),
            3 => ctx.probe("b.fmt3_new_message"),
            _ => {}
        }
        if ext {
            ctx.probe("b.ext_first");
        }
    } else if ext {
        ctx.probe("b.ext_on_continuation");
    }
    if csid >= 64 && csid <= 319 {
        ctx.probe("b.csid_2byte");
    } else if csid >= 320 {
        ctx.probe("b.csid_3byte");
    }
}

/// Generate a foreign chunk stream with up to `k.m` messages in flight.
pub fn gen_stream(ctx: &mut Ctx, k: &BKnobs, max_msgs: usize) -> Stream {
    let mut enc = RefChunkEncoder::new();
    let mut st = Stream {
        pieces: Vec::new(),
        completed: Vec::new(),
        interleaved_switches: 0,
    };
    let mut active: Vec<EncCursor> = Vec::new();
    let mut started = 0usize;
    let mut script_open = true;
    let mut last_actor: Option<u32> = None;
    // starvation (a slow or stalled sender of one chunk stream): in some runs the first
    // multi-chunk message is held back after its first chunk until the other chunk streams have
    // sent `hold` chunks -- a uniform scheduler never leaves a message waiting for a thousand
    // chunks of other traffic
    let starve_hold: Option<u64> = if k.m >= 2 && ctx.ch.chance("sched.starve", 1, 10) { Some(*ctx.ch.pick("sched.starvelen", &[200u64, 1100, 2600])) } else { None };
    let mut frozen: Option<(u32, u64)> = None;
    let mut starve_used = false;
    let mut force_chunks: Option<u64> = None;
    loop {
        if !ctx.step() {
            break;
        }
        // options: 0 = (script) start next op / end script; 1.. = continue active cursor i-1
        let can_start = script_open && started < max_msgs && active.len() < k.m;
        let eligible: Vec<usize> = (0..active.len()).filter(|i| frozen.map(|(c, _)| c != active[*i].csid).unwrap_or(true)).collect();
        if eligible.is_empty() && !can_start && frozen.is_some() {
            // nothing else to send: the held-back message goes on
            frozen = None;
            continue;
        }
        let n_opts = eligible.len() as u64 + can_start as u64;
        if n_opts == 0 {
            break;
        }
        let pick = if k.m == 1 {
            // sequential: finish the message in flight first
            if !active.is_empty() {
                1
            } else {
                0
            }
        } else {
            let p = ctx.ch.draw("sched.pick", n_opts) as usize;
            if can_start {
                if p == 0 {
                    0
                } else {
                    eligible[p - 1] + 1
                }
            } else {
                eligible[p] + 1
            }
        };
        if let Some((c, left)) = frozen {
            // every chunk sent by somebody else counts
            if left <= 1 {
                frozen = None;
                ctx.probe("b.starved_message_resumed_after_hold");
            } else {
                frozen = Some((c, left - 1));
            }
        }
        if pick == 0 {
            // start something new
            let kind = ctx.ch.weighted("op.kind", &[2, 12, if active.is_empty() || k.setchunk_midflight { k.setchunk_w } else { 0 }]);
            match kind {
                0 => {
                    script_open = false;
                }
                2 => {
                    let size = draw_chunk_size(ctx);
                    let busy: Vec<u32> = active.iter().map(|c| c.csid).collect();
                    let csid = if ctx.ch.chance("op.arg.cscsid", 1, 4) || busy.contains(&2) {
                        draw_csid(ctx, k, &busy)
                    } else {
                        2
                    };
                    if !active.is_empty() {
                        ctx.probe("b.setchunk_midflight");
                    }
                    let ts = enc.prev(csid).map(|p| p.0).unwrap_or(0);
                    let m = RefMsg {
                        type_id: 1,
                        msid: 0,
                        ts,
                        payload: size.to_be_bytes().to_vec(),
                    };
                    let f = draw_fmt(ctx, k, &enc, csid, &m);
                    ctx.tr(|| format!("  peer SetChunkSize {} on csid {} fmt {}", size, csid, f));
                    let mut out = Vec::new();
                    enc.encode_message(&mut out, csid, &m, f);
                    note_chunk(ctx, f, csid, false, true, false);
                    ctx.ev_bytes(40, &out);
                    st.pieces.push(out);
                    enc.chunk_size = size;
                    st.completed.push(m);
                    started += 1;
                    ctx.probe("b.setchunk");
                }
                _ => {
                    let avoid: Vec<u32> = active.iter().map(|c| c.csid).collect();
                    let csid = draw_csid(ctx, k, &avoid);
                    let mut m = draw_msg(ctx, k, &enc, csid, k.m > 1);
                    if let Some(n) = force_chunks.take() {
                        // traffic for the other chunk streams while one message is held back
                        if !matches!(m.type_id, 1..=6) {
                            let c = enc.chunk_size.max(1) as u64;
                            let len = (n * c).min(c.saturating_mul(5_000)).min(1 << 20) as usize;
                            m.payload = crate::choice::expand_bytes(ctx.ch.sub_seed("bytes.seed"), len);
                        }
                    }
                    let f = draw_fmt(ctx, k, &enc, csid, &m);
                    ctx.tr(|| format!("  peer start msg [{}] on csid {} fmt {}", m.brief(), csid, f));
                    let mut cur = EncCursor {
                        csid,
                        msg: m,
                        sent: 0,
                        started: false,
                    };
                    let mut out = Vec::new();
                    enc.start(&mut out, &mut cur, f);
                    let ext = enc.had_ext(csid);
                    note_chunk(ctx, f, csid, ext, true, cur.msg.payload.is_empty());
                    ctx.ev_bytes(41, &out);
                    st.pieces.push(out);
                    if cur.msg.payload.is_empty() {
                        ctx.probe("b.zero_len_msg");
                    }
                    if let Some(la) = last_actor {
                        if la != csid && active.iter().any(|c| c.csid == la) {
                            st.interleaved_switches += 1;
                        }
                    }
                    last_actor = Some(csid);
                    started += 1;
                    if cur.done() {
                        st.completed.push(cur.msg);
                    } else {
                        if let (Some(hold), false, None) = (starve_hold, starve_used, frozen) {
                            frozen = Some((cur.csid, hold));
                            starve_used = true;
                            force_chunks = Some(hold + 20);
                            ctx.probe("b.message_held_back");
                        }
                        active.push(cur);
                    }
                }
            }
        } else {
            let i = pick - 1;
            let csid = active[i].csid;
            let mut out = Vec::new();
            enc.cont(&mut out, &mut active[i]);
            let ext = enc.had_ext(csid);
            note_chunk(ctx, 3, csid, ext, false, false);
            ctx.ev_bytes(42, &out);
            ctx.tr(|| format!("  peer continue csid {} (+{} bytes on the wire)", csid, out.len()));
            st.pieces.push(out);
            if let Some(la) = last_actor {
                if la != csid {
                    st.interleaved_switches += 1;
                }
            }
            last_actor = Some(csid);
            if active[i].done() {
                let c = active.remove(i);
                st.completed.push(c.msg);
            }
        }
    }
    st
}

fn link_for(ctx: &mut Ctx, pieces: &[Vec<u8>], mode: SegMode) -> Link {
    let mut link = Link::new(mode);
    let mut dec = RefChunkDecoder::new(false);
    dec.record_chunks = true;
    for p in pieces {
        link.push(p);
        let _ = dec.feed(p);
    }
    for c in dec.chunks.iter() {
        link.note_header(c.off, c.hdr_len);
    }
    let _ = ctx;
    link
}

/// Rare run: thousands of tiny messages on distinct chunk stream ids (every id from 2 to 65599
/// is legal), then compressed headers on ids used long ago.
fn gen_csid_sweep(ctx: &mut Ctx) -> Stream {
    let mut enc = RefChunkEncoder::new();
    let mut st = Stream { pieces: Vec::new(), completed: Vec::new(), interleaved_switches: 0 };
    let n = 4097 + ctx.ch.draw("op.count", 2500) as u32;
    let start = 2 + ctx.ch.draw("op.arg.csid", 200) as u32;
    let stride = 1 + ctx.ch.draw("op.arg.stride", 9) as u32;
    let mut out = Vec::new();
    for i in 0..n {
        let csid = start + i * stride;
        if csid > 65599 {
            break;
        }
        let m = RefMsg { type_id: 8, msid: 1, ts: i, payload: vec![i as u8] };
        enc.encode_message(&mut out, csid, &m, 0);
        st.completed.push(m);
    }
    st.pieces.push(std::mem::take(&mut out));
    // revisit ids used long ago with compressed headers
    let revisit = 3 + ctx.ch.draw("op.count", 20) as u32;
    for j in 0..revisit {
        let csid = start + ctx.ch.draw("op.arg.csid", n.min((65599 - start) / stride) as u64) as u32 * stride;
        let prev = enc.prev(csid).unwrap();
        let m = RefMsg { type_id: 8, msid: 1, ts: prev.0.wrapping_add(10 + j), payload: vec![j as u8] };
        let f = enc.best_format(csid, &m);
        let mut o = Vec::new();
        enc.encode_message(&mut o, csid, &m, f);
        st.pieces.push(o);
        st.completed.push(m);
    }
    ctx.probe("b.csid_sweep_past_4096");
    st
}

pub fn run_c06(ctx: &mut Ctx) -> RunResult {
    ctx.world("B");
    if ctx.ch.chance("cfg.csidsweep", 1, 400) {
        let seg = Link::draw_mode(ctx);
        let st = gen_csid_sweep(ctx);
        ctx.nontrivial = true;
        let mut link = link_for(ctx, &st.pieces, seg);
        link.small_budget = 300;
        return receive_and_compare(ctx, &mut link, &st.completed, "foreign-decode", 1);
    }
    let k = BKnobs::draw(ctx, 1);
    let seg = Link::draw_mode(ctx);
    let st = gen_stream(ctx, &k, if ctx.tier_thorough { 30 } else { 10 });
    if st.completed.len() >= 2 {
        ctx.nontrivial = true;
    }
    let mut link = link_for(ctx, &st.pieces, seg);
    receive_and_compare(ctx, &mut link, &st.completed, "foreign-decode", 1)
}

pub fn run_c16(ctx: &mut Ctx) -> RunResult {
    ctx.world("B");
    let k = BKnobs::draw(ctx, 4);
    let seg = Link::draw_mode(ctx);
    let st = gen_stream(ctx, &k, if ctx.tier_thorough { 24 } else { 8 });
    if st.interleaved_switches >= 2 {
        ctx.nontrivial = true;
        ctx.probe("b.interleaved_run");
    }
    ctx.probe_n("b.interleave_switches", st.interleaved_switches);
    let mut link = link_for(ctx, &st.pieces, seg);
    receive_and_compare(ctx, &mut link, &st.completed, "interleaved-decode", 1)
}

/// Self-check used by the stub self-test: the reference decoder must agree with the stream.
pub fn stream_matches_refdecoder(st: &Stream) -> Result<(), String> {
    let mut dec = RefChunkDecoder::new(true);
    let mut got = Vec::new();
    for p in &st.pieces {
        match dec.feed(p) {
            Ok(mut v) => got.append(&mut v),
            Err(e) => return Err(format!("{}: {}", e.class, e.detail)),
        }
    }
    dec.finish().map_err(|e| e.detail)?;
    if got != st.completed {
        return Err(format!("{} decoded vs {} completed", got.len(), st.completed.len()));
    }
    Ok(())
}

pub fn violation_if_stub_disagrees(ctx: &mut Ctx, st: &Stream) -> RunResult {
    if let Err(e) = stream_matches_refdecoder(st) {
        return Err(Violation::new(
            "HARNESS/stub-disagreement".to_string(),
            format!("reference encoder and reference decoder disagree: {}", e),
        ));
    }
    let _ = ctx;
    Ok(())
}
