//! C19 -- configuration swarm over World A (codec half) and World D (session half).

use crate::engine::{Ctx, RunResult};
use crate::worlds::{a, d};

pub fn run(ctx: &mut Ctx) -> RunResult {
    if ctx.ch.chance("cfg.world", 1, 2) {
        d::run(ctx, d::DMode::C19)
    } else {
        a::run(ctx, a::AMode::C19)
    }
}
