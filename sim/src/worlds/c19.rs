//! C19 -- configuration swarm over World A (codec half) and World D (session half).

use crate::engine::{Ctx, RunResult};
use crate::worlds::a;

pub fn run(ctx: &mut Ctx) -> RunResult {
    a::run(ctx, a::AMode::C19)
}
