//! Hostile-peer vocabulary: message bodies a malicious or broken peer can put into perfectly
//! well-formed chunk streams.  AMF0 nesting is capped (unbounded nesting is C14's territory).

use crate::engine::Ctx;
use crate::refs::amf0::{self, AV};
use crate::refs::chunk::RefMsg;

pub const COMMANDS: [&str; 14] = [
    "connect",
    "createStream",
    "publish",
    "play",
    "closeStream",
    "deleteStream",
    "_result",
    "_error",
    "onStatus",
    "releaseStream",
    "FCPublish",
    "@setDataFrame",
    "onMetaData",
    "",
];

/// A long string of mixed 1-, 2-, 3- and 4-byte characters whose character boundaries do not
/// line up with round byte offsets (256, 1024, ...).
pub fn long_mixed_string(ctx: &mut Ctx) -> String {
    let target = *ctx.ch.pick("op.arg.strlen", &[255usize, 256, 257, 300, 1023, 1025, 4097]);
    let shift = ctx.ch.draw("op.arg.strshift", 4) as usize;
    let mut out = "a".repeat(shift);
    let units = ["\u{e9}", "\u{65e5}", "\u{1F600}", "z\u{4e16}"];
    let unit = units[ctx.ch.draw("op.arg.strunit", units.len() as u64) as usize];
    while out.len() < target {
        out.push_str(unit);
    }
    out
}

/// A string of exactly `bytes` bytes built from `unit`-byte characters after an ASCII prefix of
/// `shift` bytes (so that character boundaries fall on arbitrary offsets), padded with ASCII.
pub fn exact_bytes_string(bytes: usize, unit: usize, shift: usize) -> String {
    let ch = match unit {
        2 => "\u{e9}",
        3 => "\u{65e5}",
        4 => "\u{1F600}",
        _ => "q",
    };
    let mut out = "a".repeat(shift.min(bytes));
    while out.len() + ch.len() <= bytes {
        out.push_str(ch);
    }
    while out.len() < bytes {
        out.push('b');
    }
    out
}

pub fn draw_string(ctx: &mut Ctx) -> String {
    if ctx.ch.chance("op.arg.strlong", 1, 12) {
        return long_mixed_string(ctx);
    }
    match ctx.ch.weighted("op.arg.strk", &[4, 2, 2, 1, 1]) {
        0 => ctx.ch.pick("op.arg.str", &["live", "app", "key", "record", "append", "NetStream.Play.Start", "NetStream.Publish.Start", "code", "level"]).to_string(),
        1 => ctx.ch.pick("op.arg.str", &COMMANDS).to_string(),
        2 => String::new(),
        3 => "x".repeat(ctx.ch.range("op.arg.strlen", 1, 300) as usize),
        _ => "\u{e9}\u{4e16}/".repeat(ctx.ch.range("op.arg.strlen", 1, 20) as usize),
    }
}

pub fn draw_number(ctx: &mut Ctx) -> f64 {
    match ctx.ch.weighted("op.arg.numk", &[4, 3, 1, 1, 1, 1, 1, 1]) {
        0 => ctx.ch.draw("op.arg.num", 6) as f64,
        1 => ctx.ch.draw("op.arg.num", 3) as f64 + 0.5,
        2 => -1.0,
        3 => -2.0,
        4 => f64::NAN,
        5 => f64::INFINITY,
        6 => 4294967296.0,
        _ => -1e300,
    }
}

/// An arbitrary AMF0 value of bounded depth.
pub fn draw_value(ctx: &mut Ctx, depth: usize) -> AV {
    let w_nested = if depth >= 4 { 0 } else { 2 };
    match ctx.ch.weighted("op.arg.avk", &[3, 3, 2, 2, 1, w_nested, w_nested, w_nested]) {
        0 => AV::Null,
        1 => AV::Str(draw_string(ctx)),
        2 => AV::Num(draw_number(ctx)),
        3 => AV::Bool(ctx.ch.chance("op.arg.bool", 1, 2)),
        4 => AV::Undef,
        5 => {
            let n = ctx.ch.draw("op.arg.objn", 4) as usize;
            let mut props = Vec::new();
            for _ in 0..n {
                let key = match ctx.ch.weighted("op.arg.keyk", &[3, 2]) {
                    0 => ctx.ch.pick("op.arg.key", &["app", "code", "level", "description", "objectEncoding", "width", "stereo", "encoder", "tcUrl", "flashVer"]).to_string(),
                    _ => draw_string(ctx),
                };
                if key.is_empty() {
                    continue;
                }
                props.push((key, draw_value(ctx, depth + 1)));
            }
            AV::Obj(props)
        }
        6 => {
            let n = ctx.ch.draw("op.arg.objn", 3) as usize;
            let mut props = Vec::new();
            for i in 0..n {
                props.push((format!("k{}", i), draw_value(ctx, depth + 1)));
            }
            AV::Ecma(props)
        }
        _ => {
            let n = ctx.ch.draw("op.arg.arrn", 4) as usize;
            AV::Arr((0..n).map(|_| draw_value(ctx, depth + 1)).collect())
        }
    }
}

/// A deep (but bounded, <= 32) nest of arrays / objects.
fn deep_value(ctx: &mut Ctx) -> AV {
    let depth = ctx.ch.range("op.arg.depth", 5, 32) as usize;
    let mut v = AV::Null;
    for i in 0..depth {
        v = if (i + ctx.ch.draw("op.arg.deepk", 2) as usize) % 2 == 0 {
            AV::Arr(vec![v])
        } else {
            AV::Obj(vec![("a".to_string(), v)])
        };
    }
    v
}

/// AMF0 body bytes: value lists of every shape, incl. short command lists, wrong types in every
/// argument position, huge declared counts / lengths, truncations.
pub fn draw_amf0_body(ctx: &mut Ctx) -> Vec<u8> {
    let shape = ctx.ch.weighted("op.arg.bodyk", &[4, 4, 2, 2, 2, 1, 1, 1]);
    let mut body = match shape {
        7 => {
            // amplification: hundreds of tiny containers that each declare a large element
            // count (or are simply empty), optionally behind a command / data-frame prefix
            ctx.probe("hostile.many_overdeclaring_containers");
            let n = ctx.ch.range("op.arg.count", 100, 3000) as usize;
            let count = *ctx.ch.pick("op.arg.declared", &[1024u32, 1000, 65535, 0x00FF_FFFF, 0xFFFF_FFFF, 16]);
            let mut b = match ctx.ch.draw("op.arg.prefix", 3) {
                0 => Vec::new(),
                1 => amf0::enc(&[AV::s("onStatus"), AV::Num(0.0), AV::Null]),
                _ => amf0::enc(&[AV::s("@setDataFrame"), AV::s("onMetaData")]),
            };
            let ecma = ctx.ch.chance("op.arg.ecma", 1, 4);
            for _ in 0..n {
                if ecma {
                    b.push(8);
                    b.extend_from_slice(&count.to_be_bytes());
                    b.extend_from_slice(&[0, 0, 9]);
                } else {
                    b.push(10);
                    b.extend_from_slice(&count.to_be_bytes());
                    b.push(9);
                }
            }
            return b;
        }
        0 => {
            // command-shaped with a random prefix kept: 0, 1, 2, 3+ values
            let name = ctx.ch.pick("op.arg.cmd", &COMMANDS).to_string();
            let mut vals = vec![AV::Str(name), AV::Num(draw_number(ctx))];
            vals.push(match ctx.ch.weighted("op.arg.cobj", &[3, 3, 1]) {
                0 => AV::Null,
                1 => draw_value(ctx, 3),
                _ => AV::Obj(vec![("app".to_string(), draw_value(ctx, 3))]),
            });
            let extra = ctx.ch.draw("op.arg.nargs", 5) as usize;
            for _ in 0..extra {
                vals.push(draw_value(ctx, 2));
            }
            let keep = ctx.ch.weighted("op.arg.keep", &[5, 2, 2, 2]);
            let keep_n = match keep {
                0 => vals.len(),
                1 => 0,
                2 => 1,
                _ => 2,
            };
            vals.truncate(keep_n);
            amf0::enc(&vals)
        }
        1 => {
            // arbitrary value list (wrong types in every position)
            let n = ctx.ch.draw("op.arg.nvals", 6) as usize;
            let vals: Vec<AV> = (0..n).map(|_| draw_value(ctx, 1)).collect();
            amf0::enc(&vals)
        }
        2 => {
            // data-frame shaped
            let mut vals = vec![AV::s("@setDataFrame")];
            let n = ctx.ch.draw("op.arg.nvals", 4);
            if n >= 1 {
                vals.push(if ctx.ch.chance("op.arg.meta", 3, 4) { AV::s("onMetaData") } else { draw_value(ctx, 2) });
            }
            for _ in 1..n {
                vals.push(draw_value(ctx, 1));
            }
            amf0::enc(&vals)
        }
        3 => {
            // huge declared counts / lengths
            let mut b = Vec::new();
            match ctx.ch.draw("op.arg.hugek", 5) {
                0 => {
                    b.push(10);
                    b.extend_from_slice(&0xFFFF_FFFFu32.to_be_bytes());
                    b.extend_from_slice(&[5, 5, 5]);
                }
                1 => {
                    b.push(8);
                    b.extend_from_slice(&0xFFFF_FFFFu32.to_be_bytes());
                    b.extend_from_slice(&[0, 1, b'a', 5, 0, 0, 9]);
                }
                2 => {
                    b.push(2);
                    b.extend_from_slice(&0xFFFFu16.to_be_bytes());
                    b.extend_from_slice(b"short");
                }
                3 => {
                    b.push(3);
                    b.extend_from_slice(&0xFFFFu16.to_be_bytes());
                    b.extend_from_slice(b"name");
                }
                _ => {
                    // many nested strict arrays each claiming 2^32-1 elements (bounded depth)
                    let d = ctx.ch.range("op.arg.depth", 2, 30);
                    for _ in 0..d {
                        b.push(10);
                        b.extend_from_slice(&0xFFFF_FFFFu32.to_be_bytes());
                    }
                }
            }
            b
        }
        4 => amf0::enc(&[AV::s("onStatus"), AV::Num(0.0), AV::Null, deep_value(ctx)]),
        5 => {
            // stray object-end / unknown markers
            let n = ctx.ch.range("op.arg.len", 1, 12) as usize;
            let raw = ctx.ch.bytes("bytes.seed", n);
            raw.iter().map(|b| b % 13).collect()
        }
        _ => {
            let n = ctx.ch.range("op.arg.len", 0, 40) as usize;
            ctx.ch.bytes("bytes.seed", n)
        }
    };
    // optional truncation / bit flip of the body
    match ctx.ch.weighted("fault.kind", &[6, 2, 1]) {
        1 if !body.is_empty() => {
            let keep = ctx.ch.draw("fault.arg.pos", body.len() as u64) as usize;
            body.truncate(keep);
            ctx.fault("truncate_body");
        }
        2 if !body.is_empty() => {
            let pos = ctx.ch.draw("fault.arg.pos", body.len() as u64) as usize;
            body[pos] ^= 1 << ctx.ch.draw("fault.arg.bit", 8);
            ctx.fault("bitflip_body");
        }
        _ => {}
    }
    body
}

/// A message with any type id and a body that may or may not fit it.
pub fn draw_message(ctx: &mut Ctx, msid_pool: &[u32]) -> RefMsg {
    let type_id = match ctx.ch.weighted("op.arg.typek", &[6, 4, 3, 2]) {
        0 => *ctx.ch.pick("op.arg.type", &[20u8, 18, 17, 15]),
        1 => *ctx.ch.pick("op.arg.type", &[2u8, 3, 4, 5, 6, 1]),
        2 => *ctx.ch.pick("op.arg.type", &[8u8, 9]),
        _ => ctx.ch.draw("op.arg.type", 256) as u8,
    };
    let payload = match type_id {
        20 | 18 | 15 | 17 => {
            let mut b = draw_amf0_body(ctx);
            if type_id == 17 && ctx.ch.chance("op.arg.amf3zero", 1, 2) {
                b.insert(0, 0);
            }
            b
        }
        1..=6 => match ctx.ch.weighted("op.arg.ctlk", &[4, 2, 2, 2]) {
            0 => {
                // right size for the type, arbitrary content
                let n = match type_id {
                    4 => *ctx.ch.pick("op.arg.len", &[6usize, 10, 2]),
                    6 => 5,
                    _ => 4,
                };
                let mut b = ctx.ch.bytes("bytes.seed", n);
                if type_id != 4 && b.len() >= 4 && ctx.ch.chance("op.arg.ctledge", 1, 2) {
                    // boundary values of the 32-bit field
                    let v = *ctx.ch.pick("op.arg.ctlv", &[0u32, 1, 2, 0x7FFF_FFFF, 0x8000_0000, 0xFFFF_FFFF, 0x00FF_FFFF, 0x0100_0000]);
                    b[0..4].copy_from_slice(&v.to_be_bytes());
                    if b.len() == 5 {
                        b[4] = ctx.ch.draw("op.arg.bwlimit", 4) as u8;
                    }
                }
                if type_id == 4 && b.len() >= 2 {
                    // plausible event code
                    b[0] = 0;
                    b[1] = *ctx.ch.pick("op.arg.evt", &[0u8, 1, 2, 3, 4, 6, 7, 31, 32, 5, 99]);
                }
                if type_id == 1 && b.len() >= 4 && ctx.ch.chance("op.arg.csmall", 2, 3) {
                    // keep the chunk size sane most of the time so that the stream stays in sync
                    b = (128u32).to_be_bytes().to_vec();
                }
                b
            }
            1 => Vec::new(),
            2 => {
                let n = ctx.ch.range("op.arg.len", 1, 3) as usize;
                ctx.ch.bytes("bytes.seed", n)
            }
            _ => {
                let n = ctx.ch.range("op.arg.len", 5, 30) as usize;
                ctx.ch.bytes("bytes.seed", n)
            }
        },
        _ => {
            let n = match ctx.ch.weighted("op.arg.lenk", &[3, 2, 2]) {
                0 => ctx.ch.range("op.arg.len", 1, 40) as usize,
                1 => 0,
                _ => ctx.ch.range("op.arg.len", 100, 3000) as usize,
            };
            ctx.ch.bytes("bytes.seed", n)
        }
    };
    let msid = msid_pool[ctx.ch.draw("op.arg.msid", msid_pool.len() as u64) as usize];
    let ts = match ctx.ch.weighted("ts.kind", &[3, 2, 1]) {
        0 => ctx.ch.draw("ts.step", 1000) as u32,
        1 => 0xFF_FFFF,
        _ => ctx.ch.draw("ts.step", 1 << 32) as u32,
    };
    RefMsg {
        type_id,
        msid,
        ts,
        payload,
    }
}
