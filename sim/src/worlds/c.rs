//! World C -- handshake: real `Handshake`(client) <-> two links <-> real `Handshake`(server), or
//! one real side against the reference peer (fp9 digest handshake with chosen scheme/offset, or
//! the original digest-less handshake).  Serves C05, C11 and the handshake part of C03.

use crate::choice::Rng;
use crate::engine::{fnv_new, fnv_u64, Ctx, NodeMem, RunResult, Violation};
use crate::link::Link;
use crate::refs::handshake::{self as rh, PeerKind, RefPeer, Role, Scheme, PKT};
use rml_rtmp::handshake::{Handshake, HandshakeProcessResult, PeerType};

/// Install the RNG seam: bytes come from a private PRNG expanded from one drawn sub-seed;
/// optionally the digest-offset selector bytes are steered.
pub fn install_fill(sub_seed: u64, steer: Option<(usize, bool)>) {
    install_fill_kind(sub_seed, steer, 0)
}

/// `kind`: 0 = pseudo-random (counting pattern for sub-seed 0), 1 = all zero, 2 = all 0xFF,
/// 3 = the 8 leading bytes the library itself writes into a packet 1 (time 0 + its version
/// constant) repeated -- every filling is a legal outcome of the process RNG.
pub fn install_fill_kind(sub_seed: u64, steer: Option<(usize, bool)>, kind: u64) {
    let mut rng = Rng::new(sub_seed ^ 0xF111);
    let counting = sub_seed == 0;
    let mut counter = 0u8;
    const HDR: [u8; 8] = [0, 0, 0, 0, 128, 0, 7, 2];
    rml_rtmp::verif_hooks::set_fill_hook(Some(Box::new(move |buf: &mut [u8]| {
        for (i, b) in buf.iter_mut().enumerate() {
            if kind == 1 {
                *b = 0;
            } else if kind == 2 {
                *b = 0xFF;
            } else if kind == 3 {
                *b = HDR[i % 8];
            } else if counting {
                *b = counter;
                counter = counter.wrapping_add(1);
            } else {
                *b = rng.next_u64() as u8;
            }
        }
        if let Some((offset, high)) = steer {
            // the p1 fill covers packet bytes 8..1532: selector groups at buffer 0..4 and 764..768
            if buf.len() == 1524 {
                rh::steer(buf, 0, offset, high);
                rh::steer(buf, 764, offset, high);
            }
        }
    })));
}

/// The handshake has no clock seam because it reads no clock.  To notice a change that makes it
/// read one (std::time::Instant, SystemTime), a few runs let a little REAL time pass between
/// two library calls.  The gap is drawn from the choice stream, so a replay pauses at the same
/// place; on a tree that reads no clock it cannot influence anything.
pub fn real_time_gap(ctx: &mut Ctx, one_in: u64) {
    if ctx.ch.chance("fault.kind", 1, one_in) {
        std::thread::sleep(std::time::Duration::from_millis(3));
        ctx.fault("real_time_gap_3ms");
    }
}

fn peer_type(role: Role) -> PeerType {
    match role {
        Role::Client => PeerType::Client,
        Role::Server => PeerType::Server,
    }
}

pub struct RealHs {
    pub hs: Handshake,
    pub role: Role,
    pub emitted: Vec<u8>,
    pub received: u64,
    pub completions: u32,
    pub leftover: Vec<u8>,
    pub app_rx: Vec<u8>,
    pub trailing: Vec<u8>,
    pub trailing_sent: bool,
    pub mem: NodeMem,
}

impl RealHs {
    pub fn new(role: Role, trailing: Vec<u8>, tag: u32) -> RealHs {
        RealHs {
            hs: Handshake::new(peer_type(role)),
            role,
            emitted: Vec::new(),
            received: 0,
            completions: 0,
            leftover: Vec::new(),
            app_rx: Vec::new(),
            trailing,
            trailing_sent: false,
            mem: NodeMem::new(tag),
        }
    }

    fn after_emit(&mut self, ctx: &mut Ctx, resp: Vec<u8>) -> Result<Vec<u8>, Violation> {
        self.emitted.extend_from_slice(&resp);
        if self.emitted.len() > 1 + 2 * PKT {
            return Err(Violation::new(
                format!("{}/handshake/emitted-too-much", ctx.prop),
                format!("{:?} side emitted {} handshake bytes (more than 3073)", self.role, self.emitted.len()),
            ));
        }
        if !self.emitted.is_empty() && self.emitted[0] != 3 {
            return Err(Violation::new(
                format!("{}/handshake/bad-version-byte", ctx.prop),
                format!("{:?} side emitted version byte {}", self.role, self.emitted[0]),
            ));
        }
        let mut out = resp;
        if self.emitted.len() == 1 + 2 * PKT && !self.trailing_sent {
            // the application sends its first data right behind packet 2, as real clients do
            out.extend_from_slice(&self.trailing);
            self.trailing_sent = true;
        }
        Ok(out)
    }

    pub fn start(&mut self, ctx: &mut Ctx) -> Result<Vec<u8>, Violation> {
        let r = self.mem.call(ctx, 0, || self.hs.generate_outbound_p0_and_p1())?;
        match r {
            Ok(bytes) => self.after_emit(ctx, bytes),
            Err(e) => Err(Violation::new(
                format!("{}/handshake/error", ctx.prop),
                format!("generate_outbound_p0_and_p1 returned Err({:?})", e),
            )),
        }
    }

    pub fn deliver(&mut self, ctx: &mut Ctx, seg: &[u8]) -> Result<Vec<u8>, Violation> {
        self.received += seg.len() as u64;
        if self.completions > 0 {
            // after completion the connection belongs to the application
            self.app_rx.extend_from_slice(seg);
            return Ok(Vec::new());
        }
        let r = self.mem.call(ctx, seg.len(), || self.hs.process_bytes(seg))?;
        match r {
            Err(e) => Err(Violation::new(
                format!("{}/handshake/error", ctx.prop),
                format!("{:?} side: process_bytes returned Err({:?}) after {} bytes", self.role, e, self.received),
            )),
            Ok(HandshakeProcessResult::InProgress { response_bytes, .. }) => self.after_emit(ctx, response_bytes),
            Ok(HandshakeProcessResult::Completed {
                response_bytes,
                remaining_bytes,
                ..
            }) => {
                if self.received < (1 + 2 * PKT) as u64 {
                    return Err(Violation::new(
                        format!("{}/handshake/early-completion", ctx.prop),
                        format!("{:?} side reported Completed after receiving only {} bytes", self.role, self.received),
                    ));
                }
                self.completions += 1;
                self.leftover = remaining_bytes;
                if !self.leftover.is_empty() {
                    ctx.probe("c.completion_with_trailing_in_same_call");
                }
                self.after_emit(ctx, response_bytes)
            }
            #[allow(unreachable_patterns)]
            Ok(_) => Ok(Vec::new()),
        }
    }
}

pub struct RefHs {
    pub peer: RefPeer,
    pub app_rx: Vec<u8>,
    pub trailing: Vec<u8>,
    pub trailing_sent: bool,
    pub emitted: usize,
}

impl RefHs {
    fn wrap(&mut self, mut out: Vec<u8>) -> Vec<u8> {
        self.emitted += out.len();
        if self.emitted == 1 + 2 * PKT && !self.trailing_sent {
            out.extend_from_slice(&self.trailing);
            self.trailing_sent = true;
        }
        out
    }
    pub fn start(&mut self) -> Vec<u8> {
        let o = self.peer.start();
        self.wrap(o)
    }
    pub fn deliver(&mut self, seg: &[u8]) -> Vec<u8> {
        let (out, after) = self.peer.feed(seg);
        self.app_rx.extend_from_slice(&after);
        self.wrap(out)
    }
}

pub enum Node {
    Real(RealHs),
    Ref(RefHs),
}

impl Node {
    fn start(&mut self, ctx: &mut Ctx) -> Result<Vec<u8>, Violation> {
        match self {
            Node::Real(r) => r.start(ctx),
            Node::Ref(r) => Ok(r.start()),
        }
    }
    fn deliver(&mut self, ctx: &mut Ctx, seg: &[u8]) -> Result<Vec<u8>, Violation> {
        match self {
            Node::Real(r) => r.deliver(ctx, seg),
            Node::Ref(r) => Ok(r.deliver(seg)),
        }
    }
    fn trailing(&self) -> &[u8] {
        match self {
            Node::Real(r) => &r.trailing,
            Node::Ref(r) => &r.trailing,
        }
    }
}

fn draw_trailing(ctx: &mut Ctx) -> Vec<u8> {
    let n = match ctx.ch.weighted("op.arg.trail", &[3, 2, 3, 1]) {
        0 => 0,
        1 => ctx.ch.range("op.arg.len", 1, 4) as usize,
        2 => ctx.ch.range("op.arg.len", 5, 300) as usize,
        _ => ctx.ch.range("op.arg.len", 1500, 5000) as usize,
    };
    let seed = ctx.ch.sub_seed("bytes.seed");
    crate::choice::expand_bytes(seed | 1, n)
}

/// An original-handshake peer echoes time and random data of our packet 1 but writes its own
/// read clock ("time2") into bytes 4..8 of its packet 2 (RTMP 1.0 section 5.2.4); some peers
/// echo the packet verbatim instead.  Both are conformant.
fn with_time2(ctx: &mut Ctx, mut peer: RefPeer) -> RefPeer {
    if peer.kind == PeerKind::Original {
        peer.time2 = match ctx.ch.weighted("cfg.time2", &[2, 1, 2]) {
            0 => None,
            1 => Some([0, 0, 0, 0]),
            _ => {
                ctx.probe("c.original_peer_fills_time2");
                let v = 1 + ctx.ch.draw("cfg.time2v", u32::MAX as u64) as u32;
                Some(v.to_be_bytes())
            }
        };
    }
    peer
}

fn draw_peer_kind(ctx: &mut Ctx) -> PeerKind {
    if ctx.ch.chance("cfg.peerkind", 1, 2) {
        PeerKind::Original
    } else {
        PeerKind::Fp9 {
            scheme: if ctx.ch.chance("cfg.scheme", 1, 2) { Scheme::ServerPos } else { Scheme::ClientPos },
            offset: ctx.ch.draw("cfg.offset", 728) as usize,
            high: ctx.ch.chance("cfg.high", 1, 2),
        }
    }
}

pub fn run_c05(ctx: &mut Ctx) -> RunResult {
    ctx.world("C");
    let fill = ctx.ch.sub_seed("rng.fill");
    let fill_kind = ctx.ch.weighted("rng.fillkind", &[10, 1, 1, 1]) as u64;
    if fill_kind != 0 {
        ctx.probe("c.degenerate_rng_fill");
    }
    install_fill_kind(fill, None, fill_kind);
    let variant = ctx.ch.weighted("cfg.variant", &[4, 2, 2]);
    let tc = draw_trailing(ctx);
    let ts = draw_trailing(ctx);
    let (mut client, mut server) = match variant {
        0 => {
            ctx.probe("c.real_vs_real");
            (Node::Real(RealHs::new(Role::Client, tc, 1)), Node::Real(RealHs::new(Role::Server, ts, 2)))
        }
        1 => {
            let kind = draw_peer_kind(ctx);
            if kind == PeerKind::Original {
                ctx.probe("c.real_client_vs_original_server");
            } else {
                ctx.probe("c.real_client_vs_fp9_ref_server");
            }
            let seed = ctx.ch.sub_seed("bytes.seed");
            (
                Node::Real(RealHs::new(Role::Client, tc, 1)),
                Node::Ref(RefHs {
                    peer: with_time2(ctx, RefPeer::new(Role::Server, kind, seed)),
                    app_rx: Vec::new(),
                    trailing: ts,
                    trailing_sent: false,
                    emitted: 0,
                }),
            )
        }
        _ => {
            let kind = draw_peer_kind(ctx);
            if kind == PeerKind::Original {
                ctx.probe("c.real_server_vs_original_client");
            } else {
                ctx.probe("c.real_server_vs_fp9_ref_client");
            }
            let seed = ctx.ch.sub_seed("bytes.seed");
            (
                Node::Ref(RefHs {
                    peer: with_time2(ctx, RefPeer::new(Role::Client, kind, seed)),
                    app_rx: Vec::new(),
                    trailing: tc,
                    trailing_sent: false,
                    emitted: 0,
                }),
                Node::Real(RealHs::new(Role::Server, ts, 2)),
            )
        }
    };
    real_time_gap(ctx, 150);
    let mut c2s = Link::new(Link::draw_mode(ctx));
    let mut s2c = Link::new(Link::draw_mode(ctx));
    // handshake packet boundaries are where the staged parser suspends
    for l in [&mut c2s, &mut s2c] {
        l.note_header(0, 2);
        l.note_header(PKT as u64, 3);
        l.note_header(2 * PKT as u64, 3);
        l.note_header(1 + 2 * PKT as u64 - 1, 3);
    }
    // who starts: 0 = client proactively (the usual case); 1 = server proactively too;
    // 2 = client via an empty-slice poke (lazy generation)
    let start_mode = ctx.ch.weighted("op.kind", &[3, 2, 2]);
    match start_mode {
        0 => {
            let b = client.start(ctx)?;
            c2s.push(&b);
        }
        1 => {
            if ctx.ch.chance("sched.pick", 1, 2) {
                let b = server.start(ctx)?;
                s2c.push(&b);
                let b = client.start(ctx)?;
                c2s.push(&b);
            } else {
                let b = client.start(ctx)?;
                c2s.push(&b);
                let b = server.start(ctx)?;
                s2c.push(&b);
            }
            ctx.probe("c.server_starts_proactively");
        }
        _ => {
            let b = client.deliver(ctx, &[])?;
            if b.is_empty() {
                // reference peers do not react to an empty poke
                let b = client.start(ctx)?;
                c2s.push(&b);
            } else {
                c2s.push(&b);
            }
            ctx.probe("c.lazy_start_with_empty_slice");
        }
    }
    ctx.nontrivial = true;
    // schedule deliveries
    loop {
        if !ctx.step() {
            break;
        }
        let a = c2s.available() > 0;
        let b = s2c.available() > 0;
        if !a && !b {
            break;
        }
        let pick_c2s = if a && b { ctx.ch.draw("sched.pick", 2) == 0 } else { a };
        if pick_c2s {
            let seg = c2s.next_segment(ctx);
            ctx.sched(1, 0, Ctx::bucket_len(seg.len()));
            ctx.ev(70, seg.len() as u64, c2s.head);
            ctx.tr(|| format!("  c->s deliver {} bytes (offset {}..{})", seg.len(), c2s.head - seg.len() as u64, c2s.head));
            let out = server.deliver(ctx, &seg)?;
            if !out.is_empty() {
                ctx.tr(|| format!("    server emits {} bytes", out.len()));
                ctx.ev_bytes(72, &out);
                s2c.push(&out);
            }
        } else {
            let seg = s2c.next_segment(ctx);
            ctx.sched(2, 0, Ctx::bucket_len(seg.len()));
            ctx.ev(71, seg.len() as u64, s2c.head);
            ctx.tr(|| format!("  s->c deliver {} bytes (offset {}..{})", seg.len(), s2c.head - seg.len() as u64, s2c.head));
            let out = client.deliver(ctx, &seg)?;
            if !out.is_empty() {
                ctx.tr(|| format!("    client emits {} bytes", out.len()));
                ctx.ev_bytes(73, &out);
                c2s.push(&out);
            }
        }
    }
    // end-of-run oracles (quiescence: nothing in flight)
    let prop = ctx.prop;
    let peer_trailing_for_client = server.trailing().to_vec();
    let peer_trailing_for_server = client.trailing().to_vec();
    for (node, peer_trailing) in [(&client, peer_trailing_for_client), (&server, peer_trailing_for_server)] {
        match node {
            Node::Real(r) => {
                if r.emitted.len() != 1 + 2 * PKT {
                    return Err(Violation::new(
                        format!("{}/handshake/stalled", prop),
                        format!("{:?} side emitted {} of 3073 handshake bytes at quiescence", r.role, r.emitted.len()),
                    ));
                }
                if r.completions != 1 {
                    return Err(Violation::new(
                        format!("{}/handshake/not-completed", prop),
                        format!("{:?} side reported completion {} times at quiescence (received {} bytes)", r.role, r.completions, r.received),
                    ));
                }
                let mut got = r.leftover.clone();
                got.extend_from_slice(&r.app_rx);
                if got != peer_trailing {
                    return Err(Violation::new(
                        format!("{}/handshake/trailing-bytes", prop),
                        format!(
                            "{:?} side: bytes following the peer's packet 2 were not handed back intact: peer sent {} bytes, remaining_bytes + later input = {} bytes (first difference at {})",
                            r.role,
                            peer_trailing.len(),
                            got.len(),
                            got.iter().zip(peer_trailing.iter()).position(|(a, b)| a != b).unwrap_or(got.len().min(peer_trailing.len()))
                        ),
                    ));
                }
            }
            Node::Ref(r) => {
                if !r.peer.complete() || r.peer.bad_version {
                    return Err(Violation::new(
                        format!("{}/handshake/peer-not-completed", prop),
                        "the reference peer did not receive a complete, version-3 handshake from the library side".to_string(),
                    ));
                }
                if r.app_rx != peer_trailing {
                    return Err(Violation::new(
                        format!("{}/handshake/peer-trailing-bytes", prop),
                        "bytes after the library side's packet 2 did not reach the reference peer intact".to_string(),
                    ));
                }
            }
        }
    }
    Ok(())
}

// ---------------------------------------------------------------------------------------------
// C11

fn state_hash(kind: u64, role: Role, scheme: Scheme, offset: usize) -> u64 {
    let mut h = fnv_new();
    h = fnv_u64(h, kind);
    h = fnv_u64(h, (role == Role::Server) as u64);
    h = fnv_u64(h, (scheme == Scheme::ServerPos) as u64);
    fnv_u64(h, offset as u64)
}

pub fn run_c11(ctx: &mut Ctx) -> RunResult {
    ctx.world("C-rng");
    let i = ctx.run_index;
    // stratification over the RNG seam: run index fixes role, own offset, peer scheme and offset
    let blk = i / 728;
    let role = if blk & 1 == 0 { Role::Client } else { Role::Server };
    let peer_scheme = if (blk >> 1) & 1 == 0 { Scheme::ClientPos } else { Scheme::ServerPos };
    let own_offset = (i % 728) as usize;
    let peer_offset = ((i * 31 + 7 + blk * 101) % 728) as usize;
    let high_own = (blk >> 2) & 1 == 1;
    let fill = if blk < 8 && i % 2 == 0 { i + 1 } else { ctx.ch.sub_seed("rng.fill") };
    let peer_seed = ctx.ch.sub_seed("bytes.seed");
    let high_peer = ctx.ch.chance("cfg.high", 1, 2);
    let lazy = ctx.ch.chance("op.kind", 1, 2);
    let own_fill_kind = ctx.ch.weighted("rng.fillkind", &[10, 1, 1, 1]) as u64;
    install_fill_kind(fill, Some((own_offset, high_own)), own_fill_kind);
    ctx.nontrivial = true;
    ctx.sched(0, (role == Role::Server) as u64, own_offset as u64);
    ctx.sched(0, (peer_scheme == Scheme::ServerPos) as u64, peer_offset as u64);
    ctx.tr(|| format!("  role {:?} own offset {} (high {}) peer scheme {:?} offset {} lazy {}", role, own_offset, high_own, peer_scheme, peer_offset, lazy));

    let mut hs = Handshake::new(peer_type(role));
    real_time_gap(ctx, 40);
    // the 8 leading bytes (time, version) of the peer's packet 1 are free: typical, all zero,
    // zero version, random
    let header = ctx.ch.weighted("cfg.p1header", &[3, 2, 2, 2]) as u64;
    if header == 1 || header == 2 {
        ctx.probe("c11.peer_p1_zero_version");
    }
    // the filling is free too: pseudo-random, all zero, all 0xFF, counting pattern
    let fill_kind = ctx.ch.weighted("cfg.p1fill", &[5, 2, 1, 1]) as u64;
    if fill_kind != 0 {
        ctx.probe("c11.peer_p1_degenerate_fill");
    }
    let peer_p1 = rh::make_p1_full(role.other(), peer_scheme, peer_offset, high_peer, peer_seed, header, fill_kind);
    let mut peer_digest = match rh::verify_p1(&peer_p1, role.other()) {
        Some((_, _, d)) => d,
        None => return Err(Violation::new("HARNESS/ref-handshake", "reference p1 does not verify")),
    };
    let mut input = vec![3u8];
    input.extend_from_slice(&peer_p1);
    let pre: Vec<u8> = if lazy {
        Vec::new()
    } else {
        let a = match hs.generate_outbound_p0_and_p1() {
            Ok(b) => b,
            Err(e) => return Err(Violation::new("C11/handshake/error", format!("{:?}", e))),
        };
        // a relay-style peer may reuse the packet 1 it received as the filling of its own
        if a.len() == 1 + PKT && ctx.ch.chance("cfg.p1reflect", 1, 8) {
            ctx.probe("c11.peer_p1_reuses_our_bytes");
            let reflected = rh::make_p1_from(&a[1..], role.other(), peer_scheme, peer_offset, high_peer);
            if let Some((_, _, d)) = rh::verify_p1(&reflected, role.other()) {
                peer_digest = d;
                input = vec![3u8];
                input.extend_from_slice(&reflected);
            }
        }
        a
    };
    let peer_role = role.other();
    let acc = drive_c11(ctx, &mut hs, pre, &input, &|own_p1: &[u8]| rh::make_p2(peer_role, own_p1, peer_seed))?;
    if acc.len() < 1 + 2 * PKT {
        // nothing (complete) was generated, so there is nothing for C11 to judge; whether the
        // exchange makes progress is C05's question
        ctx.probe("c11.incomplete_output");
        return Ok(());
    }
    let (own_p0p1, p2): (Vec<u8>, Vec<u8>) = (acc[..1 + PKT].to_vec(), acc[1 + PKT..1 + 2 * PKT].to_vec());
    ctx.ev_bytes(80, &own_p0p1);
    ctx.ev_bytes(81, &p2);
    // oracle 1: own packet 1 carries a valid digest for its role at a position peers probe
    if own_p0p1.len() != 1 + PKT || own_p0p1[0] != 3 {
        return Err(Violation::new("C11/p1/shape", "p0+p1 is not a version byte 3 followed by 1536 bytes"));
    }
    match rh::verify_p1(&own_p0p1[1..], role) {
        None => {
            return Err(Violation::new(
                "C11/p1/invalid-digest",
                format!("packet 1 generated as {:?} with selector offset {} carries no valid HMAC-SHA256 digest at either probed position", role, own_offset),
            ))
        }
        Some((scheme, off, _)) => {
            ctx.state(state_hash(0, role, scheme, off));
            if scheme == role.native_scheme() && off == own_offset {
                ctx.probe("c11.own_offset_as_steered");
            }
        }
    }
    // oracle 2: packet 2 ends with the response signature derived from the peer's digest
    let want = rh::p2_signature(role, &peer_digest, &p2[..PKT - 32]);
    if p2[PKT - 32..] != want[..] {
        return Err(Violation::new(
            "C11/p2/invalid-signature",
            format!("packet 2 generated as {:?} in answer to a {:?}-scheme packet 1 with digest offset {} does not end with HMAC(HMAC(peer digest, key), first 1504 bytes)", role, peer_scheme, peer_offset),
        ));
    }
    ctx.state(state_hash(1, role, peer_scheme, peer_offset));
    // oracle 3: a digest-less packet 1 is echoed exactly
    let mut hs2 = Handshake::new(peer_type(role));
    // digest-less packets: plain random ones, and near misses -- a digest-bearing packet with
    // one byte altered (inside the digest or elsewhere) carries no valid digest either
    let plain = match ctx.ch.weighted("cfg.plainkind", &[2, 2, 1]) {
        0 => rh::make_plain_p1(peer_seed, ctx.ch.chance("cfg.zero_version", 1, 2)),
        k => {
            let mut p = rh::make_p1_full(role.other(), peer_scheme, peer_offset, high_peer, peer_seed ^ 0x5A5A, header, 0);
            let pos = rh::digest_pos(&p, peer_scheme);
            let at = if k == 1 {
                ctx.probe("c11.near_miss_digest");
                pos + ctx.ch.draw("fault.arg.pos", 32) as usize
            } else {
                // outside the digest and outside both selector groups
                let mut a = 16 + ctx.ch.draw("fault.arg.pos", (rh::PKT - 16) as u64) as usize;
                while (a >= pos && a < pos + 32) || (8..12).contains(&a) || (772..776).contains(&a) {
                    a = (a + 37) % rh::PKT;
                    if a < 16 {
                        a += 16;
                    }
                }
                a
            };
            p[at] ^= 1 << ctx.ch.draw("fault.arg.bit", 8);
            if rh::verify_p1(&p, role.other()).is_some() {
                return Err(Violation::new("HARNESS/ref-handshake", "corrupted reference p1 still verifies"));
            }
            p
        }
    };
    let mut input2 = vec![3u8];
    input2.extend_from_slice(&plain);
    let pre2 = if ctx.ch.chance("op.kind", 1, 2) {
        Vec::new()
    } else {
        match hs2.generate_outbound_p0_and_p1() {
            Ok(b) => b,
            Err(e) => return Err(Violation::new("C11/handshake/error", format!("{:?}", e))),
        }
    };
    // an original-handshake peer answers with an echo of our packet 1
    let acc2 = drive_c11(ctx, &mut hs2, pre2, &input2, &|own_p1: &[u8]| own_p1.to_vec())?;
    if acc2.len() < 1 + 2 * PKT {
        ctx.probe("c11.incomplete_output");
        return Ok(());
    }
    if acc2[1 + PKT..1 + 2 * PKT] != plain[..] {
        return Err(Violation::new(
            "C11/p2/not-an-echo",
            "packet 2 in answer to a digest-less packet 1 is not an exact echo of it",
        ));
    }
    ctx.probe("c11.digestless_echo_checked");
    Ok(())
}

/// Drive a real handshake instance against a scripted peer for C11.  `pre` is what the instance
/// already emitted (generate_outbound_p0_and_p1, or nothing); `peer_p0p1` is the peer's version
/// byte and packet 1.  As soon as the instance's own packet 1 is known the peer's packet 2
/// (`make_p2(own packet 1)`) and some trailing bytes are queued behind it -- so when the instance
/// spoke first, everything may arrive in one call, and packet 1 is parsed with later bytes already
/// buffered.  The queue is delivered under a drawn segmentation.  Returns all emitted bytes, in
/// order.  When and in which call the instance emits its packets is not prescribed here.
fn drive_c11(ctx: &mut Ctx, hs: &mut Handshake, pre: Vec<u8>, peer_p0p1: &[u8], make_p2: &dyn Fn(&[u8]) -> Vec<u8>) -> Result<Vec<u8>, Violation> {
    let mut acc = pre;
    let mut queue: Vec<u8> = peer_p0p1.to_vec();
    let mut p2_queued = false;
    let seg_kind = ctx.ch.weighted("seg.mode", &[4, 2, 2, 2, 2]);
    let mut head = 0usize;
    let mut calls = 0u32;
    let mut completed = false;
    loop {
        if !p2_queued && acc.len() >= 1 + PKT {
            let p2 = make_p2(&acc[1..1 + PKT]);
            queue.extend_from_slice(&p2);
            queue.extend_from_slice(&draw_trailing(ctx));
            p2_queued = true;
        }
        if completed || head >= queue.len() || calls > 8000 {
            break;
        }
        let left = queue.len() - head;
        let n = match seg_kind {
            0 => left,
            1 => {
                // packet by packet
                let boundary = [1usize, 1 + PKT, 1 + 2 * PKT];
                boundary.iter().find(|b| **b > head).map(|b| *b - head).unwrap_or(left).min(left)
            }
            2 => (1 + ctx.ch.draw("seg.size", 1600) as usize).min(left),
            3 => {
                if head < 24 || (head >= PKT - 8 && head < PKT + 24) {
                    1
                } else {
                    (1 + ctx.ch.draw("seg.size", 3000) as usize).min(left)
                }
            }
            _ => (1000 + ctx.ch.draw("seg.size", 2500) as usize).min(left),
        };
        let seg = &queue[head..head + n];
        if head < 1 + PKT && head + n > 1 + PKT {
            ctx.probe("c11.p1_parsed_with_later_bytes_buffered");
        }
        head += n;
        calls += 1;
        ctx.sched(1, seg_kind as u64, Ctx::bucket_len(n));
        match hs.process_bytes(seg) {
            Ok(HandshakeProcessResult::InProgress { response_bytes, .. }) => acc.extend_from_slice(&response_bytes),
            Ok(HandshakeProcessResult::Completed { response_bytes, .. }) => {
                acc.extend_from_slice(&response_bytes);
                completed = true;
            }
            #[allow(unreachable_patterns)]
            Ok(_) => {}
            Err(e) => {
                return Err(Violation::new(
                    "C11/handshake/error",
                    format!("process_bytes failed after {} of {} peer bytes: {:?}", head, queue.len(), e),
                ))
            }
        }
    }
    if completed {
        ctx.probe("c11.handshake_completed");
    }
    Ok(acc)
}

// ---------------------------------------------------------------------------------------------
// C03, handshake part

pub fn run_c03_handshake(ctx: &mut Ctx) -> RunResult {
    ctx.world("C-hostile");
    let fill = ctx.ch.sub_seed("rng.fill");
    install_fill(fill, None);
    let role = if ctx.ch.chance("cfg.role", 1, 2) { Role::Server } else { Role::Client };
    let mut hs = Handshake::new(peer_type(role));
    let mut mem = NodeMem::new(1);
    let mut pieces: Vec<Vec<u8>> = if ctx.ch.chance("cfg.garbage", 1, 4) {
        let n = ctx.ch.range("op.arg.len", 1, 4000) as usize;
        vec![ctx.ch.bytes("bytes.seed", n)]
    } else {
        // a valid peer stream: p0, p1, p2, trailing -- then mutated
        let kind = draw_peer_kind(ctx);
        let seed = ctx.ch.sub_seed("bytes.seed");
        let peer = RefPeer::new(role.other(), kind, seed);
        let own = if ctx.ch.chance("op.kind", 1, 2) {
            mem.call(ctx, 0, || hs.generate_outbound_p0_and_p1())?.ok()
        } else {
            None
        };
        let p2 = match own {
            Some(ref o) if o.len() == 1 + PKT => rh::make_p2(role.other(), &o[1..], seed),
            _ => crate::choice::expand_bytes(seed | 1, PKT),
        };
        vec![vec![3u8], peer.my_p1.clone(), p2, draw_trailing(ctx)]
    };
    let fired = crate::worlds::c03::inject_link_faults(ctx, &mut pieces);
    let _ = fired;
    ctx.nontrivial = true;
    let mut link = Link::new(Link::draw_mode(ctx));
    for p in &pieces {
        link.push(p);
    }
    link.note_header(0, 2);
    link.note_header(PKT as u64, 3);
    link.note_header(2 * PKT as u64, 3);
    while link.available() > 0 {
        if !ctx.step() {
            break;
        }
        let seg = link.next_segment(ctx);
        ctx.sched(1, 0, Ctx::bucket_len(seg.len()));
        ctx.ev(75, seg.len() as u64, 0);
        let r = mem.call(ctx, seg.len(), || hs.process_bytes(&seg))?;
        match r {
            Ok(HandshakeProcessResult::Completed { .. }) => {
                ctx.probe("c03.c.completed");
                break;
            }
            Ok(_) => {}
            Err(_) => {
                ctx.probe("c03.c.handshake_err");
                break;
            }
        }
    }
    Ok(())
}
