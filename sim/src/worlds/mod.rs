pub mod a;
pub mod b;
pub mod c;
pub mod c03;
pub mod c15;
pub mod c19;
pub mod hostile;
