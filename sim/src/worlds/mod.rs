pub mod a;
pub mod b;
pub mod c19;
