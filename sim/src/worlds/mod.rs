pub mod a;
pub mod b;
pub mod c;
pub mod c03;
pub mod c15;
pub mod c17;
pub mod c18;
pub mod c19;
pub mod d;
pub mod e;
pub mod f;
pub mod hostile;
pub mod sess;
pub mod transcript;

/// HashMap-order seam (hook H4): AMF0 object properties are written in name order permuted by a
/// private PRNG expanded from one drawn sub-seed (0 = name order).
pub fn install_amf_order(sub_seed: u64) {
    if sub_seed == 0 {
        rml_amf0::verif_hooks::set_order_hook(Some(Box::new(|_| 0)));
        return;
    }
    let mut rng = crate::choice::Rng::new(sub_seed ^ 0xA3F0);
    rml_amf0::verif_hooks::set_order_hook(Some(Box::new(move |n| rng.below(n as u64) as usize)));
}
