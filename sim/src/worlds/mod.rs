pub mod a;
pub mod c19;
