//! Hand-rolled JSON: a value type, a writer and a minimal parser (enough for replay files,
//! worker result files and evidence).

use std::collections::BTreeMap;

#[derive(Debug, Clone, PartialEq)]
pub enum J {
    Null,
    Bool(bool),
    Int(i128),
    Float(f64),
    Str(String),
    Arr(Vec<J>),
    Obj(Vec<(String, J)>),
}

impl J {
    pub fn obj() -> J {
        J::Obj(Vec::new())
    }
    pub fn set(mut self, k: &str, v: J) -> J {
        if let J::Obj(ref mut items) = self {
            items.push((k.to_string(), v));
        }
        self
    }
    pub fn put(&mut self, k: &str, v: J) {
        if let J::Obj(ref mut items) = self {
            items.push((k.to_string(), v));
        }
    }
    pub fn s(v: impl Into<String>) -> J {
        J::Str(v.into())
    }
    pub fn i(v: impl Into<i128>) -> J {
        J::Int(v.into())
    }
    pub fn u(v: u64) -> J {
        J::Int(v as i128)
    }
    pub fn arr_str(v: &[String]) -> J {
        J::Arr(v.iter().map(|s| J::Str(s.clone())).collect())
    }
    pub fn map_u64(m: &BTreeMap<&'static str, u64>) -> J {
        J::Obj(m.iter().map(|(k, v)| (k.to_string(), J::u(*v))).collect())
    }
    pub fn map_u64_s(m: &BTreeMap<String, u64>) -> J {
        J::Obj(m.iter().map(|(k, v)| (k.clone(), J::u(*v))).collect())
    }

    pub fn get(&self, k: &str) -> Option<&J> {
        if let J::Obj(items) = self {
            for (kk, v) in items {
                if kk == k {
                    return Some(v);
                }
            }
        }
        None
    }
    pub fn as_str(&self) -> Option<&str> {
        if let J::Str(s) = self {
            Some(s)
        } else {
            None
        }
    }
    pub fn as_u64(&self) -> Option<u64> {
        match self {
            J::Int(i) if *i >= 0 && *i <= u64::MAX as i128 => Some(*i as u64),
            _ => None,
        }
    }
    pub fn as_arr(&self) -> Option<&Vec<J>> {
        if let J::Arr(a) = self {
            Some(a)
        } else {
            None
        }
    }
    pub fn as_obj(&self) -> Option<&Vec<(String, J)>> {
        if let J::Obj(a) = self {
            Some(a)
        } else {
            None
        }
    }

    pub fn to_string_pretty(&self) -> String {
        let mut out = String::new();
        self.write(&mut out, 0, true);
        out.push('\n');
        out
    }

    pub fn to_string_compact(&self) -> String {
        let mut out = String::new();
        self.write(&mut out, 0, false);
        out
    }

    fn write(&self, out: &mut String, indent: usize, pretty: bool) {
        match self {
            J::Null => out.push_str("null"),
            J::Bool(b) => out.push_str(if *b { "true" } else { "false" }),
            J::Int(i) => out.push_str(&i.to_string()),
            J::Float(f) => {
                if f.is_finite() {
                    let s = format!("{}", f);
                    out.push_str(&s);
                    if !s.contains('.') && !s.contains('e') {
                        out.push_str(".0");
                    }
                } else {
                    out.push_str("null");
                }
            }
            J::Str(s) => write_str(out, s),
            J::Arr(a) => {
                // arrays of scalars stay on one line
                let scalar = a
                    .iter()
                    .all(|x| !matches!(x, J::Obj(_)) && !matches!(x, J::Arr(v) if v.len() > 4));
                out.push('[');
                for (i, v) in a.iter().enumerate() {
                    if i > 0 {
                        out.push(',');
                        if pretty && scalar {
                            out.push(' ');
                        }
                    }
                    if pretty && !scalar {
                        out.push('\n');
                        push_indent(out, indent + 1);
                    }
                    v.write(out, indent + 1, pretty && !scalar);
                }
                if pretty && !scalar && !a.is_empty() {
                    out.push('\n');
                    push_indent(out, indent);
                }
                out.push(']');
            }
            J::Obj(items) => {
                out.push('{');
                for (i, (k, v)) in items.iter().enumerate() {
                    if i > 0 {
                        out.push(',');
                    }
                    if pretty {
                        out.push('\n');
                        push_indent(out, indent + 1);
                    }
                    write_str(out, k);
                    out.push(':');
                    if pretty {
                        out.push(' ');
                    }
                    v.write(out, indent + 1, pretty);
                }
                if pretty && !items.is_empty() {
                    out.push('\n');
                    push_indent(out, indent);
                }
                out.push('}');
            }
        }
    }
}

fn push_indent(out: &mut String, n: usize) {
    for _ in 0..n {
        out.push(' ');
    }
}

fn write_str(out: &mut String, s: &str) {
    out.push('"');
    for c in s.chars() {
        match c {
            '"' => out.push_str("\\\""),
            '\\' => out.push_str("\\\\"),
            '\n' => out.push_str("\\n"),
            '\r' => out.push_str("\\r"),
            '\t' => out.push_str("\\t"),
            c if (c as u32) < 0x20 => out.push_str(&format!("\\u{:04x}", c as u32)),
            c => out.push(c),
        }
    }
    out.push('"');
}

pub fn parse(text: &str) -> Result<J, String> {
    let mut p = Parser {
        b: text.as_bytes(),
        i: 0,
    };
    p.ws();
    let v = p.value()?;
    p.ws();
    if p.i != p.b.len() {
        return Err(format!("trailing data at {}", p.i));
    }
    Ok(v)
}

struct Parser<'a> {
    b: &'a [u8],
    i: usize,
}

impl<'a> Parser<'a> {
    fn ws(&mut self) {
        while self.i < self.b.len() && matches!(self.b[self.i], b' ' | b'\n' | b'\r' | b'\t') {
            self.i += 1;
        }
    }
    fn value(&mut self) -> Result<J, String> {
        if self.i >= self.b.len() {
            return Err("unexpected end".into());
        }
        match self.b[self.i] {
            b'{' => {
                self.i += 1;
                let mut items = Vec::new();
                self.ws();
                if self.peek() == Some(b'}') {
                    self.i += 1;
                    return Ok(J::Obj(items));
                }
                loop {
                    self.ws();
                    let k = match self.value()? {
                        J::Str(s) => s,
                        _ => return Err("object key not a string".into()),
                    };
                    self.ws();
                    if self.peek() != Some(b':') {
                        return Err(format!("expected ':' at {}", self.i));
                    }
                    self.i += 1;
                    self.ws();
                    let v = self.value()?;
                    items.push((k, v));
                    self.ws();
                    match self.peek() {
                        Some(b',') => self.i += 1,
                        Some(b'}') => {
                            self.i += 1;
                            return Ok(J::Obj(items));
                        }
                        _ => return Err(format!("expected ',' or '}}' at {}", self.i)),
                    }
                }
            }
            b'[' => {
                self.i += 1;
                let mut items = Vec::new();
                self.ws();
                if self.peek() == Some(b']') {
                    self.i += 1;
                    return Ok(J::Arr(items));
                }
                loop {
                    self.ws();
                    items.push(self.value()?);
                    self.ws();
                    match self.peek() {
                        Some(b',') => self.i += 1,
                        Some(b']') => {
                            self.i += 1;
                            return Ok(J::Arr(items));
                        }
                        _ => return Err(format!("expected ',' or ']' at {}", self.i)),
                    }
                }
            }
            b'"' => {
                self.i += 1;
                let mut s = String::new();
                loop {
                    if self.i >= self.b.len() {
                        return Err("unterminated string".into());
                    }
                    let c = self.b[self.i];
                    self.i += 1;
                    match c {
                        b'"' => return Ok(J::Str(s)),
                        b'\\' => {
                            if self.i >= self.b.len() {
                                return Err("bad escape".into());
                            }
                            let e = self.b[self.i];
                            self.i += 1;
                            match e {
                                b'n' => s.push('\n'),
                                b'r' => s.push('\r'),
                                b't' => s.push('\t'),
                                b'b' => s.push('\u{8}'),
                                b'f' => s.push('\u{c}'),
                                b'u' => {
                                    if self.i + 4 > self.b.len() {
                                        return Err("bad \\u".into());
                                    }
                                    let hex = std::str::from_utf8(&self.b[self.i..self.i + 4])
                                        .map_err(|_| "bad \\u")?;
                                    let cp = u32::from_str_radix(hex, 16).map_err(|_| "bad \\u")?;
                                    self.i += 4;
                                    s.push(char::from_u32(cp).unwrap_or('?'));
                                }
                                other => s.push(other as char),
                            }
                        }
                        _ => {
                            // copy raw utf-8 bytes
                            let start = self.i - 1;
                            let mut end = self.i;
                            while end < self.b.len() && self.b[end] != b'"' && self.b[end] != b'\\'
                            {
                                end += 1;
                            }
                            s.push_str(
                                std::str::from_utf8(&self.b[start..end]).map_err(|_| "bad utf8")?,
                            );
                            self.i = end;
                        }
                    }
                }
            }
            b't' => self.lit("true", J::Bool(true)),
            b'f' => self.lit("false", J::Bool(false)),
            b'n' => self.lit("null", J::Null),
            _ => {
                let start = self.i;
                let mut is_float = false;
                while self.i < self.b.len()
                    && matches!(self.b[self.i], b'0'..=b'9' | b'-' | b'+' | b'.' | b'e' | b'E')
                {
                    if matches!(self.b[self.i], b'.' | b'e' | b'E') {
                        is_float = true;
                    }
                    self.i += 1;
                }
                let t = std::str::from_utf8(&self.b[start..self.i]).map_err(|_| "bad number")?;
                if t.is_empty() {
                    return Err(format!("unexpected byte at {}", start));
                }
                if is_float {
                    t.parse::<f64>().map(J::Float).map_err(|e| e.to_string())
                } else {
                    t.parse::<i128>().map(J::Int).map_err(|e| e.to_string())
                }
            }
        }
    }
    fn peek(&self) -> Option<u8> {
        self.b.get(self.i).copied()
    }
    fn lit(&mut self, word: &str, v: J) -> Result<J, String> {
        if self.b[self.i..].starts_with(word.as_bytes()) {
            self.i += word.len();
            Ok(v)
        } else {
            Err(format!("bad literal at {}", self.i))
        }
    }
}
