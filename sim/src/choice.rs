//! The choice stream: the single source of every decision a simulated run makes.
//!
//! Generate mode draws from a seeded xoshiro256** PRNG and records every draw; replay mode
//! returns recorded values in order (clamped to the requested range) and 0 once the record
//! is exhausted.  By convention value 0 is the simplest choice for every label, so every
//! prefix / edited stream is still a valid run -- that is what makes shrinking generic.

#[derive(Clone)]
pub struct Rng {
    s: [u64; 4],
}

pub fn splitmix64(x: &mut u64) -> u64 {
    *x = x.wrapping_add(0x9E37_79B9_7F4A_7C15);
    let mut z = *x;
    z = (z ^ (z >> 30)).wrapping_mul(0xBF58_476D_1CE4_E5B9);
    z = (z ^ (z >> 27)).wrapping_mul(0x94D0_49BB_1331_11EB);
    z ^ (z >> 31)
}

pub fn mix3(a: u64, b: u64, c: u64) -> u64 {
    let mut x = a ^ 0x5851_F42D_4C95_7F2D;
    let mut r = splitmix64(&mut x);
    x ^= b.wrapping_mul(0xD6E8_FEB8_6659_FD93);
    r ^= splitmix64(&mut x);
    x ^= c.wrapping_mul(0xA076_1D64_78BD_642F);
    r ^= splitmix64(&mut x);
    splitmix64(&mut (r ^ x))
}

impl Rng {
    pub fn new(seed: u64) -> Rng {
        let mut x = seed;
        let mut s = [0u64; 4];
        for slot in s.iter_mut() {
            *slot = splitmix64(&mut x);
        }
        if s == [0, 0, 0, 0] {
            s[0] = 1;
        }
        Rng { s }
    }

    #[inline]
    pub fn next_u64(&mut self) -> u64 {
        let result = self.s[1].wrapping_mul(5).rotate_left(7).wrapping_mul(9);
        let t = self.s[1] << 17;
        self.s[2] ^= self.s[0];
        self.s[3] ^= self.s[1];
        self.s[1] ^= self.s[2];
        self.s[0] ^= self.s[3];
        self.s[2] ^= t;
        self.s[3] = self.s[3].rotate_left(45);
        result
    }

    #[inline]
    pub fn below(&mut self, n: u64) -> u64 {
        if n <= 1 {
            return 0;
        }
        // multiply-shift; bias is irrelevant here
        ((self.next_u64() as u128 * n as u128) >> 64) as u64
    }
}

/// Expand one drawn sub-seed into `len` bytes.  Sub-seed 0 gives a counting pattern so that
/// minimised replays contain recognisable payloads.
pub fn expand_bytes(sub_seed: u64, len: usize) -> Vec<u8> {
    let mut out = Vec::with_capacity(len);
    if sub_seed == 0 {
        for i in 0..len {
            out.push(i as u8);
        }
        return out;
    }
    let mut rng = Rng::new(sub_seed ^ 0xB17E_5EED);
    while out.len() + 8 <= len {
        out.extend_from_slice(&rng.next_u64().to_le_bytes());
    }
    while out.len() < len {
        out.push(rng.next_u64() as u8);
    }
    out
}

enum Mode {
    Gen(Rng),
    Replay { vals: Vec<u64>, pos: usize },
}

pub struct Ch {
    mode: Mode,
    pub rec: Vec<(&'static str, u64, u64)>,
    pub draw_limit: usize,
    pub exhausted: bool,
}

impl Ch {
    pub fn generate(run_seed: u64) -> Ch {
        Ch {
            mode: Mode::Gen(Rng::new(run_seed)),
            rec: Vec::with_capacity(256),
            draw_limit: 400_000,
            exhausted: false,
        }
    }

    pub fn replay(vals: Vec<u64>) -> Ch {
        Ch {
            mode: Mode::Replay { vals, pos: 0 },
            rec: Vec::with_capacity(256),
            draw_limit: 400_000,
            exhausted: false,
        }
    }

    /// Uniform draw in 0..n (n >= 1).  0 is the simplest choice.
    #[inline]
    pub fn draw(&mut self, label: &'static str, n: u64) -> u64 {
        let n = if n == 0 { 1 } else { n };
        if self.rec.len() >= self.draw_limit {
            self.exhausted = true;
            return 0;
        }
        let v = match self.mode {
            Mode::Gen(ref mut rng) => rng.below(n),
            Mode::Replay {
                ref vals,
                ref mut pos,
            } => {
                if *pos < vals.len() {
                    let v = vals[*pos];
                    *pos += 1;
                    if v >= n {
                        n - 1
                    } else {
                        v
                    }
                } else {
                    0
                }
            }
        };
        self.rec.push((label, n, v));
        v
    }

    /// true with probability num/den; value 0 means false.
    #[inline]
    pub fn chance(&mut self, label: &'static str, num: u64, den: u64) -> bool {
        if num == 0 {
            return false;
        }
        let v = self.draw(label, den);
        v >= den - num.min(den)
    }

    /// Weighted pick; index 0 must be the simplest alternative.  Weights of 0 are skipped.
    pub fn weighted(&mut self, label: &'static str, weights: &[u32]) -> usize {
        let total: u64 = weights.iter().map(|w| *w as u64).sum();
        if total == 0 {
            return 0;
        }
        let mut v = self.draw(label, total);
        for (i, w) in weights.iter().enumerate() {
            let w = *w as u64;
            if v < w {
                return i;
            }
            v -= w;
        }
        0
    }

    /// Uniform in lo..=hi; lo is the simplest.
    #[inline]
    pub fn range(&mut self, label: &'static str, lo: u64, hi: u64) -> u64 {
        if hi <= lo {
            return lo;
        }
        let span = hi - lo;
        if span == u64::MAX {
            return self.draw(label, u64::MAX);
        }
        lo + self.draw(label, span + 1)
    }

    pub fn pick<'a, T>(&mut self, label: &'static str, items: &'a [T]) -> &'a T {
        let i = self.draw(label, items.len() as u64) as usize;
        &items[i]
    }

    /// A sub-seed for bulk bytes; 0 (counting pattern) is the simplest.
    pub fn sub_seed(&mut self, label: &'static str) -> u64 {
        self.draw(label, 1 << 32)
    }

    pub fn bytes(&mut self, label: &'static str, len: usize) -> Vec<u8> {
        let s = self.sub_seed(label);
        expand_bytes(s, len)
    }

    pub fn values(&self) -> Vec<u64> {
        self.rec.iter().map(|r| r.2).collect()
    }
}
