//! Executing one simulated run (generate or replay mode) and the worker loop.

use crate::alloc;
use crate::choice::{mix3, Ch};
use crate::engine::{run_catching, Ctx, Stats, Violation};
use crate::json::J;
use crate::props::PropSpec;
use std::collections::{BTreeMap, HashSet};
use std::io::Write;

pub const DEFAULT_SEED: u64 = 20260925;

pub struct RunOutcome {
    pub violation: Option<Violation>,
    pub log_hash: u64,
    pub sched_hash: u64,
    pub nontrivial: bool,
    pub choices: Vec<(&'static str, u64, u64)>,
    pub stats: Stats,
    pub states: Vec<u64>,
    pub trace: Vec<String>,
    pub steps: u64,
    pub sim_ns: u64,
}

pub fn prop_number(id: &str) -> u64 {
    id.trim_start_matches('C').parse::<u64>().unwrap_or(0)
}

pub fn run_seed(verif_seed: u64, prop: &str, run_index: u64) -> u64 {
    mix3(verif_seed, prop_number(prop), run_index)
}

fn reset_seams() {
    rml_rtmp::verif_hooks::set_clock_ns(0);
    rml_rtmp::verif_hooks::set_fill_hook(None);
    rml_amf0::verif_hooks::set_order_hook(None);
    alloc::reset_tag();
}

pub fn exec_run(spec: &PropSpec, ch: Ch, thorough: bool, run_index: u64, tracing: bool) -> RunOutcome {
    reset_seams();
    let mut ctx = Ctx::new(ch, spec.id, tracing);
    ctx.tier_thorough = thorough;
    ctx.run_index = run_index;
    let f = spec.run;
    let r = run_catching(&mut ctx, f);
    reset_seams();
    let mut stats = std::mem::take(&mut ctx.stats);
    stats.sim_time_ns += ctx.now_ns as u128;
    RunOutcome {
        violation: r.err(),
        log_hash: ctx.log_hash,
        sched_hash: ctx.sched_hash,
        nontrivial: ctx.nontrivial,
        choices: std::mem::take(&mut ctx.ch.rec),
        stats,
        states: std::mem::take(&mut ctx.states),
        trace: std::mem::take(&mut ctx.trace),
        steps: ctx.steps,
        sim_ns: ctx.now_ns,
    }
}

pub fn exec_generated(spec: &PropSpec, verif_seed: u64, thorough: bool, run_index: u64, tracing: bool) -> RunOutcome {
    let ch = Ch::generate(run_seed(verif_seed, spec.id, run_index));
    exec_run(spec, ch, thorough, run_index, tracing)
}

pub fn exec_replay(spec: &PropSpec, vals: Vec<u64>, thorough: bool, run_index: u64, tracing: bool) -> RunOutcome {
    exec_run(spec, Ch::replay(vals), thorough, run_index, tracing)
}

fn merge_map(dst: &mut BTreeMap<&'static str, u64>, src: &BTreeMap<&'static str, u64>) {
    for (k, v) in src {
        *dst.entry(k).or_insert(0) += *v;
    }
}

pub fn merge_stats(dst: &mut Stats, src: &Stats) {
    merge_map(&mut dst.probes, &src.probes);
    merge_map(&mut dst.faults, &src.faults);
    merge_map(&mut dst.worlds, &src.worlds);
    dst.steps += src.steps;
    dst.sim_time_ns += src.sim_time_ns;
    dst.lib_calls += src.lib_calls;
    dst.bytes_delivered += src.bytes_delivered;
}

const SET_CAP: usize = 1 << 22;

pub struct WorkerArgs {
    pub prop: String,
    pub thorough: bool,
    pub seed: u64,
    pub k: u64,
    pub of: u64,
    pub start: u64,
    pub total: u64,
    pub out: String,
    pub status: String,
    pub want_samples: bool,
    pub log_hashes: bool,
}

fn write_status(f: &mut std::fs::File, v: u64) {
    use std::io::{Seek, SeekFrom};
    let _ = f.seek(SeekFrom::Start(0));
    let _ = f.write_all(&v.to_le_bytes());
}

fn write_u64s(path: &str, set: &HashSet<u64>) {
    let mut v: Vec<u64> = set.iter().copied().collect();
    v.sort_unstable();
    let mut bytes = Vec::with_capacity(v.len() * 8);
    for x in v {
        bytes.extend_from_slice(&x.to_le_bytes());
    }
    let _ = std::fs::write(path, bytes);
}

pub fn worker_main(spec: &PropSpec, a: &WorkerArgs) -> i32 {
    // backstops: address-space limit and hard heap cap
    unsafe {
        let lim = libc::rlimit {
            rlim_cur: 12 << 30,
            rlim_max: 12 << 30,
        };
        libc::setrlimit(libc::RLIMIT_AS, &lim);
    }
    alloc::set_hard_cap(3 << 30);
    let mut status = match std::fs::OpenOptions::new().create(true).write(true).open(&a.status) {
        Ok(f) => f,
        Err(e) => {
            eprintln!("worker: cannot open status file: {}", e);
            return 2;
        }
    };
    let mut runs = 0u64;
    let mut nontrivial = 0u64;
    let mut sched: HashSet<u64> = HashSet::new();
    let mut states: HashSet<u64> = HashSet::new();
    let mut sched_capped = false;
    let mut stats = Stats::default();
    let mut violations: Vec<J> = Vec::new();
    let mut samples: Vec<J> = Vec::new();
    let mut log_hashes: Vec<(u64, u64)> = Vec::new();
    let mut idx = a.start;
    // first index >= start with idx % of == k
    while idx % a.of != a.k {
        idx += 1;
    }
    while idx < a.total {
        write_status(&mut status, idx);
        let out = exec_generated(spec, a.seed, a.thorough, idx, false);
        runs += 1;
        stats.steps += out.steps;
        merge_stats(&mut stats, &out.stats);
        if a.log_hashes {
            log_hashes.push((idx, out.log_hash));
        }
        if out.nontrivial {
            nontrivial += 1;
            if sched.len() < SET_CAP {
                sched.insert(out.sched_hash);
            } else {
                sched_capped = true;
            }
            if a.want_samples && samples.len() < 3 && out.violation.is_none() {
                // re-execute with tracing to write the case out
                let vals: Vec<u64> = out.choices.iter().map(|c| c.2).collect();
                let t = exec_replay(spec, vals, a.thorough, idx, true);
                let mut lines: Vec<String> = t.trace.iter().take(30).cloned().collect();
                if t.trace.len() > 30 {
                    lines.push(format!("... {} more trace lines", t.trace.len() - 30));
                }
                samples.push(
                    J::obj()
                        .set("run_index", J::u(idx))
                        .set("run_seed", J::u(run_seed(a.seed, spec.id, idx)))
                        .set("choices_drawn", J::u(out.choices.len() as u64))
                        .set("trace", J::arr_str(&lines)),
                );
            }
        }
        for s in out.states {
            if states.len() < SET_CAP {
                states.insert(s);
            }
        }
        if let Some(v) = out.violation {
            if violations.len() < 40 {
                violations.push(
                    J::obj()
                        .set("run_index", J::u(idx))
                        .set("sig", J::s(v.sig))
                        .set("msg", J::s(v.msg)),
                );
            }
            if violations.len() >= 40 {
                break;
            }
        }
        idx += a.of;
    }
    write_status(&mut status, u64::MAX);
    write_u64s(&format!("{}.sched", a.out), &sched);
    write_u64s(&format!("{}.states", a.out), &states);
    let mut j = J::obj()
        .set("runs", J::u(runs))
        .set("nontrivial", J::u(nontrivial))
        .set("sched_capped", J::Bool(sched_capped))
        .set("steps", J::u(stats.steps))
        .set("sim_time_ns", J::Int(stats.sim_time_ns as i128))
        .set("lib_calls", J::u(stats.lib_calls))
        .set("bytes_delivered", J::u(stats.bytes_delivered))
        .set("probes", J::map_u64(&stats.probes))
        .set("faults", J::map_u64(&stats.faults))
        .set("worlds", J::map_u64(&stats.worlds))
        .set("violations", J::Arr(violations))
        .set("samples", J::Arr(samples));
    if a.log_hashes {
        j.put(
            "log_hashes",
            J::Arr(
                log_hashes
                    .iter()
                    .map(|(i, h)| J::Arr(vec![J::u(*i), J::u(*h)]))
                    .collect(),
            ),
        );
    }
    if std::fs::write(&a.out, j.to_string_compact()).is_err() {
        return 2;
    }
    0
}
