//! The transport seam: one direction of a reliable, ordered byte stream (like TCP).  The
//! sender appends packets; the link decides, from the choice stream, how the bytes are cut
//! into delivered segments.  Hostile-peer faults mutate bytes as they enter the link.

use crate::engine::Ctx;
use std::collections::VecDeque;

#[derive(Clone, Copy, Debug, PartialEq, Eq)]
pub enum SegMode {
    All = 0,
    PerPacket = 1,
    OneByte = 2,
    Tiny = 3,
    Medium = 4,
    HeaderCuts = 5,
    Mixed = 6,
}

pub struct Link {
    buf: VecDeque<u8>,
    /// absolute offset of the first byte in `buf`
    pub head: u64,
    pub pushed: u64,
    pkt_ends: VecDeque<u64>,
    /// (absolute offset, length) of header regions (places where a staged parser suspends)
    hdrs: VecDeque<(u64, u32)>,
    pub mode: SegMode,
    pub deliveries: u64,
    pub small_budget: u64,
    pub closed: bool,
}

impl Link {
    pub fn new(mode: SegMode) -> Link {
        Link {
            buf: VecDeque::new(),
            head: 0,
            pushed: 0,
            pkt_ends: VecDeque::new(),
            hdrs: VecDeque::new(),
            mode,
            deliveries: 0,
            small_budget: 1500,
            closed: false,
        }
    }

    pub fn draw_mode(ctx: &mut Ctx) -> SegMode {
        match ctx.ch.weighted("cfg.seg", &[2, 2, 2, 3, 3, 4, 4]) {
            0 => SegMode::All,
            1 => SegMode::PerPacket,
            2 => SegMode::OneByte,
            3 => SegMode::Tiny,
            4 => SegMode::Medium,
            5 => SegMode::HeaderCuts,
            _ => SegMode::Mixed,
        }
    }

    pub fn push(&mut self, bytes: &[u8]) {
        if bytes.is_empty() {
            return;
        }
        self.buf.extend(bytes.iter().copied());
        self.pushed += bytes.len() as u64;
        self.pkt_ends.push_back(self.pushed);
    }

    /// Mark a header region starting at absolute offset `off` (relative to all bytes ever pushed).
    pub fn note_header(&mut self, off: u64, len: u32) {
        if len > 0 {
            self.hdrs.push_back((off, len));
        }
    }

    pub fn available(&self) -> usize {
        self.buf.len()
    }

    fn to_next_packet_end(&mut self) -> usize {
        while let Some(&e) = self.pkt_ends.front() {
            if e <= self.head {
                self.pkt_ends.pop_front();
            } else {
                return (e - self.head) as usize;
            }
        }
        self.buf.len()
    }

    /// A cut strictly inside the next header region at or after the head, if any is queued.
    fn header_cut(&mut self, ctx: &mut Ctx) -> Option<usize> {
        while let Some(&(off, len)) = self.hdrs.front() {
            if off + len as u64 <= self.head {
                self.hdrs.pop_front();
            } else {
                break;
            }
        }
        // choose among the first few header regions ahead
        let ahead: Vec<(u64, u32)> = self
            .hdrs
            .iter()
            .take(4)
            .filter(|(off, _)| *off < self.head + self.buf.len() as u64)
            .copied()
            .collect();
        if ahead.is_empty() {
            return None;
        }
        let (off, len) = ahead[ctx.ch.draw("link.hdr", ahead.len() as u64) as usize];
        // cut position p with off < p < off+len  (or == off+len when len == 1: just after it)
        let lo = off.max(self.head) + 1;
        let hi = (off + len as u64).min(self.head + self.buf.len() as u64);
        if hi < lo {
            return None;
        }
        let p = ctx.ch.range("link.hdrpos", lo, hi);
        Some((p - self.head) as usize)
    }

    /// Decide the next segment length (>= 1 when bytes are available) and pop it.
    pub fn next_segment(&mut self, ctx: &mut Ctx) -> Vec<u8> {
        let avail = self.buf.len();
        if avail == 0 {
            return Vec::new();
        }
        let mut mode = self.mode;
        if mode == SegMode::Mixed {
            mode = match ctx.ch.weighted("link.seg", &[2, 2, 2, 3, 2, 3]) {
                0 => SegMode::All,
                1 => SegMode::PerPacket,
                2 => SegMode::OneByte,
                3 => SegMode::Tiny,
                4 => SegMode::Medium,
                _ => SegMode::HeaderCuts,
            };
        }
        // bound the number of tiny deliveries per link so that huge payloads stay affordable
        if self.deliveries >= self.small_budget
            && matches!(mode, SegMode::OneByte | SegMode::Tiny | SegMode::HeaderCuts)
        {
            mode = SegMode::Medium;
        }
        let len = match mode {
            SegMode::All => avail,
            SegMode::PerPacket => self.to_next_packet_end().max(1).min(avail),
            SegMode::OneByte => 1,
            SegMode::Tiny => 1 + ctx.ch.draw("link.len", 16.min(avail as u64)) as usize,
            SegMode::Medium => {
                let cap = if self.deliveries >= self.small_budget {
                    avail.min(1 << 20)
                } else {
                    avail.min(4096)
                };
                let lo = if self.deliveries >= self.small_budget {
                    cap.min(4096)
                } else {
                    1
                };
                ctx.ch.range("link.len", lo as u64, cap as u64) as usize
            }
            SegMode::HeaderCuts => match self.header_cut(ctx) {
                Some(n) if n >= 1 => n.min(avail),
                _ => self.to_next_packet_end().max(1).min(avail),
            },
            SegMode::Mixed => avail,
        };
        let len = len.max(1).min(avail);
        let seg: Vec<u8> = self.buf.drain(..len).collect();
        self.head += len as u64;
        self.deliveries += 1;
        ctx.stats.bytes_delivered += len as u64;
        seg
    }
}

// ---------------------------------------------------------------------------------------------
// hostile-peer faults: applied to bytes entering a link

pub const HOSTILE_KINDS: [&str; 6] = [
    "bitflip",
    "overwrite",
    "truncate_packet",
    "insert_garbage",
    "duplicate_range",
    "splice_header",
];

/// Apply one hostile fault of kind `kind` (index into HOSTILE_KINDS) to `bytes`.
/// `history` = bytes sent earlier on this link (for replay-style duplication).
pub fn mutate(ctx: &mut Ctx, kind: usize, bytes: &mut Vec<u8>, history: &[u8]) {
    let n = bytes.len();
    match kind {
        0 => {
            if n == 0 {
                return;
            }
            let pos = ctx.ch.draw("fault.arg.pos", n as u64) as usize;
            let bit = ctx.ch.draw("fault.arg.bit", 8) as u8;
            bytes[pos] ^= 1 << bit;
            ctx.fault("bitflip");
            ctx.tr(|| format!("    FAULT bitflip byte {} bit {}", pos, bit));
        }
        1 => {
            if n == 0 {
                return;
            }
            let pos = ctx.ch.draw("fault.arg.pos", n as u64) as usize;
            let len = 1 + ctx.ch.draw("fault.arg.len", 8.min((n - pos) as u64)) as usize;
            let fill = ctx.ch.bytes("bytes.seed", len);
            for i in 0..len.min(n - pos) {
                bytes[pos + i] = fill[i] ^ 0xA5;
            }
            ctx.fault("overwrite");
            ctx.tr(|| format!("    FAULT overwrite {} bytes at {}", len, pos));
        }
        2 => {
            if n == 0 {
                return;
            }
            let keep = ctx.ch.draw("fault.arg.pos", n as u64) as usize;
            bytes.truncate(keep);
            ctx.fault("truncate_packet");
            ctx.tr(|| format!("    FAULT truncate packet to {} bytes", keep));
        }
        3 => {
            let pos = ctx.ch.draw("fault.arg.pos", n as u64 + 1) as usize;
            let len = 1 + ctx.ch.draw("fault.arg.len", 40) as usize;
            let junk = ctx.ch.bytes("bytes.seed", len);
            let junk: Vec<u8> = junk.iter().map(|b| b ^ 0x3C).collect();
            let tail = bytes.split_off(pos);
            bytes.extend_from_slice(&junk);
            bytes.extend_from_slice(&tail);
            ctx.fault("insert_garbage");
            ctx.tr(|| format!("    FAULT insert {} garbage bytes at {}", len, pos));
        }
        4 => {
            // replay of earlier bytes (from history or from this packet)
            let src: Vec<u8> = if !history.is_empty() && ctx.ch.chance("fault.arg.src", 1, 2) {
                history.to_vec()
            } else {
                bytes.clone()
            };
            if src.is_empty() {
                return;
            }
            let start = ctx.ch.draw("fault.arg.pos", src.len() as u64) as usize;
            let len = 1 + ctx.ch.draw("fault.arg.len", 64.min((src.len() - start) as u64)) as usize;
            let pos = ctx.ch.draw("fault.arg.pos", n as u64 + 1) as usize;
            let piece = src[start..(start + len).min(src.len())].to_vec();
            let tail = bytes.split_off(pos);
            bytes.extend_from_slice(&piece);
            bytes.extend_from_slice(&tail);
            ctx.fault("duplicate_range");
            ctx.tr(|| format!("    FAULT duplicate {} earlier bytes at {}", piece.len(), pos));
        }
        _ => {
            // splice a syntactically valid chunk header with inconsistent fields in front of /
            // inside the packet
            let pos = if ctx.ch.chance("fault.arg.src", 1, 2) {
                0
            } else {
                ctx.ch.draw("fault.arg.pos", n as u64 + 1) as usize
            };
            let variant = ctx.ch.draw("fault.arg.variant", 6);
            let csid_byte = match ctx.ch.draw("fault.arg.csid", 4) {
                0 => {
                    if n > 0 {
                        bytes[0] & 0x3F
                    } else {
                        3
                    }
                }
                1 => 2,
                2 => 3,
                _ => 2 + ctx.ch.draw("fault.arg.csid2", 62) as u8,
            };
            let csid_byte = if csid_byte < 2 { 3 } else { csid_byte };
            let mut h: Vec<u8> = Vec::new();
            match variant {
                0 => {
                    // type 0 with a shorter message length (mid-message)
                    h.push(csid_byte);
                    h.extend_from_slice(&[0, 0, 1]);
                    let l = ctx.ch.draw("fault.arg.len", 4) as u8;
                    h.extend_from_slice(&[0, 0, l]);
                    h.push(9);
                    h.extend_from_slice(&[1, 0, 0, 0]);
                }
                1 => {
                    // delta header with 0xFFFFFF and an extended timestamp below the threshold
                    h.push(0x80 | csid_byte);
                    h.extend_from_slice(&[0xFF, 0xFF, 0xFF]);
                    let e = ctx.ch.draw("fault.arg.len", 0xFF_FFFF) as u32;
                    h.extend_from_slice(&e.to_be_bytes());
                }
                2 => {
                    // type 3 on a (probably) unseen csid
                    h.push(0xC0 | (2 + ctx.ch.draw("fault.arg.csid2", 62) as u8));
                }
                3 => {
                    // huge message length
                    h.push(csid_byte);
                    h.extend_from_slice(&[0, 0, 0]);
                    h.extend_from_slice(&[0xFF, 0xFF, 0xFF]);
                    h.push(ctx.ch.draw("fault.arg.type", 256) as u8);
                    h.extend_from_slice(&[0, 0, 0, 0]);
                }
                4 => {
                    // type 1 with different length mid-message
                    h.push(0x40 | csid_byte);
                    h.extend_from_slice(&[0, 0, 0]);
                    let l = ctx.ch.draw("fault.arg.len", 300) as u32;
                    h.extend_from_slice(&[(l >> 16) as u8, (l >> 8) as u8, l as u8]);
                    h.push(ctx.ch.draw("fault.arg.type", 256) as u8);
                }
                _ => {
                    // 2- or 3-byte csid forms
                    if ctx.ch.chance("fault.arg.src", 1, 2) {
                        h.push(0);
                        h.push(ctx.ch.draw("fault.arg.csid2", 256) as u8);
                    } else {
                        h.push(1);
                        h.push(ctx.ch.draw("fault.arg.csid2", 256) as u8);
                        h.push(ctx.ch.draw("fault.arg.csid2", 256) as u8);
                    }
                    h.extend_from_slice(&[0, 0, 0, 0, 0, 2, 8, 1, 0, 0, 0, 7, 7]);
                }
            }
            let tail = bytes.split_off(pos.min(bytes.len()));
            bytes.extend_from_slice(&h);
            bytes.extend_from_slice(&tail);
            ctx.fault("splice_header");
            ctx.tr(|| format!("    FAULT splice header variant {} at {}", variant, pos));
        }
    }
}
