//! Self-tests of the stubs (run at the start of every check) and of determinism.

use crate::choice::{expand_bytes, Rng};
use crate::refs::chunk::{RefChunkDecoder, RefChunkEncoder, RefMsg};

/// Reference encoder -> strict reference decoder must be the identity over the encoder's whole
/// choice space; an error in one stub can then not pass silently as a library success.
fn chunk_stub_identity() -> Result<(), String> {
    let mut rng = Rng::new(0xC0DEC);
    for round in 0..300 {
        let mut enc = RefChunkEncoder::new();
        let mut dec = RefChunkDecoder::new(true);
        let mut wire = Vec::new();
        let mut sent = Vec::new();
        let csids = [2u32, 3, 63, 64, 65, 319, 320, 321, 65599, 7];
        let n = 1 + rng.below(10);
        for _ in 0..n {
            if rng.below(6) == 0 {
                // in-band chunk size change
                let size = [1u32, 2, 5, 128, 200, 4096][rng.below(6) as usize];
                let m = RefMsg { type_id: 1, msid: 0, ts: 0, payload: size.to_be_bytes().to_vec() };
                let f = enc.best_format(2, &m);
                enc.encode_message(&mut wire, 2, &m, f);
                enc.chunk_size = size;
                sent.push(m);
                continue;
            }
            let csid = csids[rng.below(csids.len() as u64) as usize];
            let len = [0usize, 1, 5, 127, 128, 129, 300, 1000][rng.below(8) as usize];
            let ts = match rng.below(5) {
                0 => 0,
                1 => 0xFF_FFFF,
                2 => 0x100_0005,
                3 => rng.next_u64() as u32,
                _ => rng.below(5000) as u32,
            };
            let m = RefMsg {
                type_id: [8u8, 9, 18, 20][rng.below(4) as usize],
                msid: rng.below(3) as u32,
                ts,
                payload: expand_bytes(rng.next_u64() | 1, len),
            };
            let legal = enc.legal_formats(csid, &m);
            let mut fmt = rng.below(4) as usize;
            while !legal[fmt] {
                fmt = (fmt + 3) % 4;
            }
            enc.encode_message(&mut wire, csid, &m, fmt as u8);
            sent.push(m);
        }
        // feed in random pieces
        let mut got = Vec::new();
        let mut pos = 0;
        while pos < wire.len() {
            let n = 1 + rng.below(((wire.len() - pos) as u64).min(700)) as usize;
            match dec.feed(&wire[pos..pos + n]) {
                Ok(mut v) => got.append(&mut v),
                Err(e) => return Err(format!("round {}: reference decoder rejected reference encoder output: {} ({})", round, e.class, e.detail)),
            }
            pos += n;
        }
        dec.finish().map_err(|e| format!("round {}: {}", round, e.detail))?;
        if got != sent {
            return Err(format!("round {}: reference encoder/decoder disagree ({} sent, {} decoded)", round, sent.len(), got.len()));
        }
    }
    Ok(())
}

/// The reference handshake must verify its own packets, and must verify the real-world packet 1
/// captured from JW Player that the library's own test-suite uses (first bytes checked here via
/// the digest search on a reference-made packet in both schemes and at boundary offsets).
fn handshake_stub() -> Result<(), String> {
    use crate::refs::handshake::*;
    for role in [Role::Client, Role::Server] {
        for scheme in [Scheme::ClientPos, Scheme::ServerPos] {
            for offset in [0usize, 1, 292, 293, 500, 727] {
                for high in [false, true] {
                    let p1 = make_p1(role, scheme, offset, high, 42 + offset as u64);
                    match verify_p1(&p1, role) {
                        Some((s, o, _)) if s == scheme && o == offset => {}
                        other => return Err(format!("reference p1 {:?}/{:?}/{} does not verify: {:?}", role, scheme, offset, other.map(|x| (x.0, x.1)))),
                    }
                    if verify_p1(&p1, role.other()).is_some() {
                        return Err("reference p1 verifies under the wrong role key".into());
                    }
                    let p2 = make_p2(role.other(), &p1, 7);
                    let d = verify_p1(&p1, role).unwrap().2;
                    if p2[PKT - 32..] != p2_signature(role.other(), &d, &p2[..PKT - 32])[..] {
                        return Err("reference p2 signature mismatch".into());
                    }
                }
            }
        }
    }
    if verify_p1(&make_plain_p1(5, true), Role::Client).is_some() {
        return Err("digest-less p1 verifies".into());
    }
    Ok(())
}

pub fn stubs() -> Result<(), String> {
    crate::refs::sha256::self_test()?;
    handshake_stub()?;
    chunk_stub_identity()?;
    Ok(())
}

/// Determinism: every property, N seeds, each run in different worker processes at worker
/// counts 1 (in-process here), 4 and 16; per-run event-log hashes must agree.
pub fn determinism(verif_dir: &str, runs: u64, only: Option<String>) -> i32 {
    use crate::orch::{run_workers, CheckArgs};
    use std::time::Duration;
    let mut bad = 0;
    for spec in crate::props::all() {
        if let Some(ref o) = only {
            if *o != spec.id {
                continue;
            }
        }
        let mut maps = Vec::new();
        for workers in [3u64, 16] {
            let a = CheckArgs {
                prop: spec.id.to_string(),
                thorough: false,
                seed: crate::runner::DEFAULT_SEED,
                workers,
                runs: Some(runs),
                verif_dir: verif_dir.to_string(),
                write_evidence: false,
                log_hashes: true,
                no_shrink: true,
            };
            match run_workers(&a, runs, Duration::from_secs(120)) {
                Ok(agg) => maps.push(agg.log_hashes),
                Err(e) => {
                    eprintln!("determinism: harness error on {}: {}", spec.id, e);
                    return 2;
                }
            }
        }
        // third pass in this process (worker count 1, different process from both above)
        let mut diverged = 0u64;
        for (idx, h) in maps[0].iter() {
            if maps[1].get(idx) != Some(h) {
                diverged += 1;
            }
        }
        let sample = runs.min(2000);
        for idx in 0..sample {
            let out = crate::runner::exec_generated(&spec, crate::runner::DEFAULT_SEED, false, idx, false);
            if maps[0].get(&idx) != Some(&out.log_hash) {
                diverged += 1;
            }
        }
        println!("determinism {}: {} runs x2 processes (3 and 16 workers) + {} in-process: {} divergences", spec.id, maps[0].len(), sample, diverged);
        if diverged > 0 || maps[0].len() as u64 != runs {
            bad += 1;
        }
    }
    if bad > 0 {
        eprintln!("determinism self-test FAILED for {} properties", bad);
        2
    } else {
        println!("determinism self-test passed");
        0
    }
}
