//! ServerModel (DESIGN.md appendix A.3): executable reference state machine for C09, written
//! from the property statement.  R = required, F = forbidden, P = permitted either way.

use rml_rtmp::sessions::StreamMetadata;
use std::collections::{BTreeMap, BTreeSet};

#[derive(Clone, Debug, PartialEq)]
pub enum SOut {
    ConnReq { id: u32, app: String },
    PubReq { id: u32, app: String, key: String, mode: String },
    PlayReq { id: u32, app: String, key: String, sid: u32 },
    PubFin { app: String, key: String },
    PlayFin { app: String, key: String },
    Audio { app: String, key: String, len: usize, hash: u64, ts: u32 },
    Video { app: String, key: String, len: usize, hash: u64, ts: u32 },
    Meta { app: String, key: String, meta: StreamMetadata },
    Result { tx: f64, msid: u32, first_arg: Option<f64> },
    Error { tx: f64, msid: u32 },
    OnStatus { msid: u32, code: String },
    PingResp { ts: u32 },
}

impl SOut {
    pub fn kind(&self) -> &'static str {
        match self {
            SOut::ConnReq { .. } => "ConnectionRequested",
            SOut::PubReq { .. } => "PublishStreamRequested",
            SOut::PlayReq { .. } => "PlayStreamRequested",
            SOut::PubFin { .. } => "PublishStreamFinished",
            SOut::PlayFin { .. } => "PlayStreamFinished",
            SOut::Audio { .. } => "AudioDataReceived",
            SOut::Video { .. } => "VideoDataReceived",
            SOut::Meta { .. } => "StreamMetadataChanged",
            SOut::Result { .. } => "_result",
            SOut::Error { .. } => "_error",
            SOut::OnStatus { .. } => "onStatus",
            SOut::PingResp { .. } => "PingResponse",
        }
    }
}

#[derive(Clone, Debug)]
pub enum SIn {
    /// app = None: command object is not an object / has no string `app`
    Connect { tx: f64, app: Option<String> },
    CreateStream { tx: f64 },
    /// key/mode = None when the argument list is short, mistyped or the mode unknown
    Publish { msid: u32, key: Option<String>, mode: Option<String> },
    Play { msid: u32, key: Option<String> },
    Close { sid: Option<u32> },
    Delete { sid: Option<u32> },
    Audio { msid: u32, len: usize, hash: u64, ts: u32 },
    Video { msid: u32, len: usize, hash: u64, ts: u32 },
    /// `@setDataFrame`, `onMetaData`, object -- meta = None when the shape is malformed
    Meta { msid: u32, meta: Option<StreamMetadata> },
    DataOther,
    PingReq { ts: u32 },
    Other,
}

impl SIn {
    pub fn kind(&self) -> &'static str {
        match self {
            SIn::Connect { .. } => "connect",
            SIn::CreateStream { .. } => "createStream",
            SIn::Publish { .. } => "publish",
            SIn::Play { .. } => "play",
            SIn::Close { .. } => "closeStream",
            SIn::Delete { .. } => "deleteStream",
            SIn::Audio { .. } => "audio",
            SIn::Video { .. } => "video",
            SIn::Meta { .. } => "setDataFrame",
            SIn::DataOther => "data",
            SIn::PingReq { .. } => "pingRequest",
            SIn::Other => "other",
        }
    }
    /// May `handle_input` legitimately fail (close the session) on this input?
    pub fn err_permitted(&self) -> bool {
        match self {
            SIn::Connect { app: None, .. } => true,
            SIn::Publish { key, mode, .. } => key.is_none() || mode.is_none(),
            SIn::Play { key, .. } => key.is_none(),
            SIn::Close { sid } | SIn::Delete { sid } => sid.is_none(),
            SIn::Meta { meta, .. } => meta.is_none(),
            SIn::DataOther | SIn::Other => true,
            _ => false,
        }
    }
}

#[derive(Clone, Debug, PartialEq)]
pub enum Pending {
    Connect { app: String, tx: f64 },
    Publish { sid: u32, key: String },
    Play { sid: u32, key: String },
}

#[derive(Clone, Debug, PartialEq)]
pub enum St {
    Created,
    /// closed with closeStream: not publishing or playing any more; whether it can be used
    /// again without a new createStream the statement does not say
    Closed,
    Publishing(String),
    Playing(String),
    Finished,
    Unknown,
}

#[derive(Clone, Debug)]
pub struct ServerModel {
    pub app: Option<String>,
    pub pending: BTreeMap<u32, Pending>,
    pub issued_ids: BTreeSet<u32>,
    pub issued_sids: BTreeSet<u32>,
    pub streams: BTreeMap<u32, St>,
    /// request ids whose accept failed because their stream was gone: whether such an id is
    /// spent the statement does not say, so a later accept or reject of it may go either way
    pub limbo: BTreeMap<u32, Pending>,
}

fn same_f64(a: f64, b: f64) -> bool {
    a.to_bits() == b.to_bits() || (a.is_nan() && b.is_nan())
}

pub type Alts = Vec<(usize, ServerModel)>;

impl ServerModel {
    pub fn new() -> ServerModel {
        ServerModel {
            app: None,
            pending: BTreeMap::new(),
            issued_ids: BTreeSet::new(),
            issued_sids: BTreeSet::new(),
            streams: BTreeMap::new(),
            limbo: BTreeMap::new(),
        }
    }

    pub fn summary(&self) -> String {
        format!("app={:?} pending={:?} streams={:?}", self.app, self.pending, self.streams)
    }

    pub fn state_hash(&self) -> u64 {
        use crate::engine::{fnv_new, fnv_u64};
        let mut h = fnv_new();
        h = fnv_u64(h, self.app.is_some() as u64);
        h = fnv_u64(h, self.pending.len().min(4) as u64);
        for p in self.pending.values() {
            h = fnv_u64(h, match p {
                Pending::Connect { .. } => 1,
                Pending::Publish { .. } => 2,
                Pending::Play { .. } => 3,
            });
        }
        for s in self.streams.values() {
            h = fnv_u64(h, match s {
                St::Created => 1,
                St::Closed => 6,
                St::Publishing(_) => 2,
                St::Playing(_) => 3,
                St::Finished => 4,
                St::Unknown => 5,
            });
        }
        h
    }

    fn none(&self) -> Alts {
        vec![(0, self.clone())]
    }

    fn fresh_request(&self, id: u32) -> bool {
        !self.issued_ids.contains(&id)
    }

    /// All (number of tracked outputs consumed, successor state) pairs admissible for `input`
    /// given the remaining tracked outputs `outs` of the call.
    pub fn step(&self, input: &SIn, outs: &[SOut]) -> Alts {
        let mut alts: Alts = Vec::new();
        match input {
            SIn::Connect { tx, app } => match app {
                None => {
                    // P: anything (the generator only sends this where Err is expected)
                    alts.extend(self.none());
                    if let Some(SOut::ConnReq { id, app }) = outs.first() {
                        if self.fresh_request(*id) {
                            let mut m = self.clone();
                            m.issued_ids.insert(*id);
                            m.pending.insert(*id, Pending::Connect { app: app.clone(), tx: *tx });
                            alts.push((1, m));
                        }
                    }
                }
                Some(want_app) => {
                    // how the name is normalised (the library drops one trailing '/') is not the
                    // statement's business: the surfaced name must be the requested one up to
                    // surrounding slashes and white space, and it is the surfaced name that
                    // every later event has to carry
                    fn norm(s: &str) -> &str {
                        s.trim_matches(|c: char| c == '/' || c.is_whitespace())
                    }
                    if let Some(SOut::ConnReq { id, app }) = outs.first() {
                        if self.fresh_request(*id) && norm(app) == norm(want_app) {
                            let mut m = self.clone();
                            m.issued_ids.insert(*id);
                            m.pending.insert(*id, Pending::Connect { app: app.clone(), tx: *tx });
                            alts.push((1, m));
                        }
                    }
                    if self.app.is_some() || self.pending.values().any(|p| matches!(p, Pending::Connect { .. })) {
                        // already connected, or a connection request is waiting for its answer:
                        // the statement does not say that a further connect is surfaced
                        if let Some(SOut::Error { .. }) = outs.first() {
                            alts.push((1, self.clone()));
                        }
                        alts.extend(self.none());
                    }
                }
            },
            SIn::CreateStream { tx } => {
                if let Some(SOut::Result { tx: rtx, first_arg: Some(sid), .. }) = outs.first() {
                    let s = *sid;
                    if same_f64(*rtx, *tx) && s >= 0.0 && s.fract() == 0.0 && s < 4294967296.0 && !self.issued_sids.contains(&(s as u32)) {
                        let mut m = self.clone();
                        m.issued_sids.insert(s as u32);
                        m.streams.insert(s as u32, St::Created);
                        alts.push((1, m));
                    }
                }
                if self.app.is_none() {
                    // P: _error or nothing before a connection was accepted
                    if let Some(SOut::Error { .. }) = outs.first() {
                        alts.push((1, self.clone()));
                    }
                    alts.extend(self.none());
                }
            }
            SIn::Publish { msid, key, mode } => {
                let well_formed = key.is_some() && mode.is_some();
                if !well_formed {
                    // P: _error, nothing, or -- once connected -- a request made from what is
                    // there (a missing mode defaulting to live, say); F: a request before connect
                    if let Some(SOut::Error { .. }) = outs.first() {
                        alts.push((1, self.clone()));
                    }
                    alts.extend(self.none());
                    if let (Some(app), Some(SOut::PubReq { id, app: a, key: k, mode: md })) = (self.app.as_ref(), outs.first()) {
                        if self.fresh_request(*id) && a == app && key.as_ref().map(|x| x == k).unwrap_or(true) && mode.as_ref().map(|x| x == md).unwrap_or(true) {
                            let mut m = self.clone();
                            m.issued_ids.insert(*id);
                            m.pending.insert(*id, Pending::Publish { sid: *msid, key: k.clone() });
                            alts.push((1, m));
                        }
                    }
                } else if self.app.is_none() {
                    // F request event; R an _error response
                    if let Some(SOut::Error { .. }) = outs.first() {
                        alts.push((1, self.clone()));
                    }
                } else {
                    let app = self.app.clone().unwrap();
                    let created = self.streams.get(msid) == Some(&St::Created);
                    if let Some(SOut::PubReq { id, app: a, key: k, mode: md }) = outs.first() {
                        if self.fresh_request(*id) && *a == app && Some(k) == key.as_ref() && Some(md) == mode.as_ref() {
                            let mut m = self.clone();
                            m.issued_ids.insert(*id);
                            m.pending.insert(*id, Pending::Publish { sid: *msid, key: k.clone() });
                            alts.push((1, m));
                        }
                    }
                    if !created {
                        // stream absent / busy: statement silent
                        if let Some(SOut::Error { .. }) = outs.first() {
                            alts.push((1, self.clone()));
                        }
                        alts.extend(self.none());
                    }
                }
            }
            SIn::Play { msid, key } => {
                if key.is_none() {
                    if let Some(SOut::Error { .. }) = outs.first() {
                        alts.push((1, self.clone()));
                    }
                    alts.extend(self.none());
                } else if self.app.is_none() {
                    if let Some(SOut::Error { .. }) = outs.first() {
                        alts.push((1, self.clone()));
                    }
                } else {
                    let app = self.app.clone().unwrap();
                    let created = self.streams.get(msid) == Some(&St::Created);
                    if let Some(SOut::PlayReq { id, app: a, key: k, sid }) = outs.first() {
                        if self.fresh_request(*id) && *a == app && Some(k) == key.as_ref() && sid == msid {
                            let mut m = self.clone();
                            m.issued_ids.insert(*id);
                            m.pending.insert(*id, Pending::Play { sid: *msid, key: k.clone() });
                            alts.push((1, m));
                        }
                    }
                    if !created {
                        if let Some(SOut::Error { .. }) = outs.first() {
                            alts.push((1, self.clone()));
                        }
                        alts.extend(self.none());
                    }
                }
            }
            SIn::Close { sid } | SIn::Delete { sid } => {
                let delete = matches!(input, SIn::Delete { .. });
                let app = self.app.clone().unwrap_or_default();
                match sid.and_then(|s| self.streams.get(&s).map(|st| (s, st.clone()))) {
                    Some((s, St::Publishing(k))) => {
                        if outs.first() == Some(&SOut::PubFin { app: app.clone(), key: k.clone() }) {
                            let mut m = self.clone();
                            if delete {
                                m.streams.remove(&s);
                            } else {
                                m.streams.insert(s, St::Closed);
                            }
                            alts.push((1, m));
                        }
                    }
                    Some((s, St::Playing(k))) => {
                        if outs.first() == Some(&SOut::PlayFin { app: app.clone(), key: k.clone() }) {
                            let mut m = self.clone();
                            if delete {
                                m.streams.remove(&s);
                            } else {
                                m.streams.insert(s, St::Closed);
                            }
                            alts.push((1, m));
                        }
                    }
                    Some((s, St::Finished)) | Some((s, St::Unknown)) => {
                        // P: a finished event or none
                        let was_unknown = self.streams.get(&s) == Some(&St::Unknown);
                        let mut m = self.clone();
                        if delete {
                            m.streams.remove(&s);
                        } else if !was_unknown {
                            m.streams.insert(s, St::Closed);
                        }
                        if matches!(outs.first(), Some(SOut::PubFin { .. }) | Some(SOut::PlayFin { .. })) {
                            alts.push((1, m.clone()));
                        }
                        alts.push((0, m));
                    }
                    Some((s, St::Created)) | Some((s, St::Closed)) => {
                        // F any finished event
                        let mut m = self.clone();
                        if delete {
                            m.streams.remove(&s);
                        }
                        alts.push((0, m));
                    }
                    None => alts.extend(self.none()),
                }
            }
            SIn::Audio { msid, len, hash, ts } | SIn::Video { msid, len, hash, ts } => {
                let is_audio = matches!(input, SIn::Audio { .. });
                match self.streams.get(msid) {
                    Some(St::Publishing(k)) => {
                        let app = self.app.clone().unwrap_or_default();
                        let want = if is_audio {
                            SOut::Audio { app, key: k.clone(), len: *len, hash: *hash, ts: *ts }
                        } else {
                            SOut::Video { app, key: k.clone(), len: *len, hash: *hash, ts: *ts }
                        };
                        if outs.first() == Some(&want) {
                            alts.push((1, self.clone()));
                        }
                    }
                    Some(St::Unknown) => {
                        if matches!(outs.first(), Some(SOut::Audio { .. }) | Some(SOut::Video { .. })) {
                            alts.push((1, self.clone()));
                        }
                        alts.extend(self.none());
                    }
                    _ => alts.extend(self.none()), // F any media event
                }
            }
            SIn::Meta { msid, meta } => match (self.streams.get(msid), meta) {
                (Some(St::Publishing(k)), Some(mm)) => {
                    let want = SOut::Meta { app: self.app.clone().unwrap_or_default(), key: k.clone(), meta: mm.clone() };
                    if outs.first() == Some(&want) {
                        alts.push((1, self.clone()));
                    }
                }
                (Some(St::Publishing(_)), None) | (Some(St::Unknown), _) => {
                    // malformed shape on a publishing stream / unknown state: statement silent
                    if matches!(outs.first(), Some(SOut::Meta { .. })) {
                        alts.push((1, self.clone()));
                    }
                    alts.extend(self.none());
                }
                _ => alts.extend(self.none()), // F metadata event
            },
            SIn::PingReq { ts } => {
                if outs.first() == Some(&SOut::PingResp { ts: *ts }) {
                    alts.push((1, self.clone()));
                }
            }
            SIn::DataOther => alts.extend(self.none()),
            SIn::Other => {
                // unknown commands and other messages: the statement neither requires nor
                // forbids a reply (real servers answer releaseStream / FCPublish with _result)
                if matches!(outs.first(), Some(SOut::Result { .. }) | Some(SOut::Error { .. })) {
                    alts.push((1, self.clone()));
                }
                alts.extend(self.none());
            }
        }
        alts
    }

    /// Application call `accept_request(id)`; `ok` = the call returned Ok, `outs` = its tracked
    /// outputs.  Returns the successor state or a description of the violation.
    pub fn accept(&self, id: u32, ok: bool, outs: &[SOut]) -> Result<ServerModel, (&'static str, String)> {
        if let Some(p) = self.limbo.get(&id) {
            // an earlier accept of this request failed because its stream did not exist; the
            // stream may have been created since
            let mut m = self.clone();
            if ok {
                m.limbo.remove(&id);
                if let Pending::Publish { sid, key } | Pending::Play { sid, key } = p {
                    let is_pub = matches!(p, Pending::Publish { .. });
                    let st = if self.streams.contains_key(sid) {
                        if is_pub {
                            St::Publishing(key.clone())
                        } else {
                            St::Playing(key.clone())
                        }
                    } else {
                        St::Unknown
                    };
                    m.streams.insert(*sid, st);
                }
            }
            return Ok(m);
        }
        match self.pending.get(&id) {
            None => {
                if ok {
                    return Err(("accepted-unknown-id", format!("accept_request({}) returned Ok although no request with that id is outstanding", id)));
                }
                if !outs.is_empty() {
                    return Err(("refused-call-had-effects", "a refused accept_request produced output".to_string()));
                }
                Ok(self.clone())
            }
            Some(Pending::Connect { app, tx }) => {
                if !ok {
                    return Err(("accept-refused", format!("accept_request({}) of a pending connection request returned Err", id)));
                }
                let has = outs.iter().any(|o| matches!(o, SOut::Result { tx: t, .. } if same_f64(*t, *tx)));
                if !has {
                    return Err(("accept-without-result", format!("accepting the connection request did not emit _result for transaction {}", tx)));
                }
                let mut m = self.clone();
                m.pending.remove(&id);
                m.app = Some(app.clone());
                Ok(m)
            }
            Some(Pending::Publish { sid, key }) | Some(Pending::Play { sid, key }) => {
                let is_pub = matches!(self.pending.get(&id), Some(Pending::Publish { .. }));
                let mut m = self.clone();
                m.pending.remove(&id);
                if !self.streams.contains_key(sid) {
                    // deleted meanwhile / never created: P Err (no change) or Ok (unknown)
                    if ok {
                        m.streams.insert(*sid, St::Unknown);
                    } else {
                        m.limbo.insert(id, self.pending.get(&id).cloned().unwrap());
                    }
                    return Ok(m);
                }
                if !ok && self.streams.get(sid) == Some(&St::Closed) {
                    // closed after the request was surfaced: whether the stream can still be
                    // used the statement does not say
                    return Ok(m);
                }
                if !ok {
                    return Err(("accept-refused", format!("accept_request({}) of a pending {} request on an existing stream returned Err", id, if is_pub { "publish" } else { "play" })));
                }
                let code = if is_pub { "NetStream.Publish.Start" } else { "NetStream.Play.Start" };
                let has = outs.iter().any(|o| matches!(o, SOut::OnStatus { msid, code: c } if msid == sid && c == code));
                if !has {
                    return Err(("accept-without-status", format!("accepting request {} did not emit onStatus {} on message stream {}", id, code, sid)));
                }
                m.streams.insert(*sid, if is_pub { St::Publishing(key.clone()) } else { St::Playing(key.clone()) });
                Ok(m)
            }
        }
    }

    pub fn reject(&self, id: u32, ok: bool, outs: &[SOut]) -> Result<ServerModel, (&'static str, String)> {
        if self.limbo.contains_key(&id) {
            let mut m = self.clone();
            if ok {
                m.limbo.remove(&id);
            }
            return Ok(m);
        }
        match self.pending.get(&id) {
            None => {
                if ok {
                    return Err(("rejected-unknown-id", format!("reject_request({}) returned Ok although no request with that id is outstanding", id)));
                }
                if !outs.is_empty() {
                    return Err(("refused-call-had-effects", "a refused reject_request produced output".to_string()));
                }
                Ok(self.clone())
            }
            Some(_) => {
                if !ok {
                    return Err(("reject-refused", format!("reject_request({}) of a pending request returned Err", id)));
                }
                // The statement does not prescribe the wire form of a rejection: `_error` (what the
                // library sends) and an onStatus (what FMS-style servers send for publish/play) both
                // tell the peer; only a rejection the peer never hears about is flagged.
                if !outs.iter().any(|o| matches!(o, SOut::Error { .. } | SOut::OnStatus { .. })) {
                    return Err(("reject-without-error", "rejecting a pending request emitted neither an _error response nor a status notification".to_string()));
                }
                let mut m = self.clone();
                m.pending.remove(&id);
                Ok(m)
            }
        }
    }

    pub fn finish_playing(&self, sid: u32, ok: bool) -> ServerModel {
        let mut m = self.clone();
        if ok {
            match self.streams.get(&sid) {
                Some(St::Playing(_)) => {
                    m.streams.insert(sid, St::Finished);
                }
                _ => {
                    m.streams.insert(sid, St::Unknown);
                }
            }
        }
        m
    }
}

/// Match the tracked outputs of one `handle_input` call against the concatenation of one
/// admissible alternative per completed input message (depth-first with backtracking).
pub fn match_call(m: &ServerModel, inputs: &[SIn], outs: &[SOut]) -> Option<ServerModel> {
    if inputs.is_empty() {
        return if outs.is_empty() { Some(m.clone()) } else { None };
    }
    for (n, m2) in m.step(&inputs[0], outs) {
        if n <= outs.len() {
            if let Some(r) = match_call(&m2, &inputs[1..], &outs[n..]) {
                return Some(r);
            }
        }
    }
    None
}

/// Diagnosis for the violation signature: the deepest point any admissible path reaches.
fn deepest(m: &ServerModel, inputs: &[SIn], outs: &[SOut], depth: usize) -> (usize, ServerModel, usize) {
    // returns (depth of failure, model there, number of outputs left there)
    if inputs.is_empty() {
        return (depth, m.clone(), outs.len());
    }
    let alts = m.step(&inputs[0], outs);
    let mut best = (depth, m.clone(), outs.len());
    let mut first = true;
    for (n, m2) in alts {
        if n > outs.len() {
            continue;
        }
        let r = deepest(&m2, &inputs[1..], &outs[n..], depth + 1);
        if first || r.0 > best.0 {
            best = r;
            first = false;
        }
    }
    best
}

pub fn diagnose(m: &ServerModel, inputs: &[SIn], outs: &[SOut]) -> (String, String) {
    let (d, model, left) = deepest(m, inputs, outs, 0);
    let rest = &outs[outs.len() - left..];
    let next_kind = rest.first().map(|o| o.kind()).unwrap_or("nothing");
    if d >= inputs.len() {
        return (
            format!("extra:{}", next_kind),
            format!("tracked outputs {:?} are left over after all input messages were explained (model state [{}])", rest.iter().map(|o| o.kind()).collect::<Vec<_>>(), model.summary()),
        );
    }
    (
        format!("{}:got-{}", inputs[d].kind(), next_kind),
        format!(
            "input message #{} ({:?}) in model state [{}]: the remaining tracked outputs {:?} match no admissible behaviour",
            d,
            inputs[d],
            model.summary(),
            rest.iter().map(|o| format!("{:?}", o)).collect::<Vec<_>>()
        ),
    )
}
