//! AckModel (DESIGN.md appendix A.2): reference counter for C17.
//!
//! Fed, per `handle_input` call, with the call length, the Acknowledgement values decoded from
//! the packets that call returned, and the window announcements the call's input contained
//! (value, number of input bytes of this call that follow the announcement).

#[derive(Clone, Debug)]
struct Cand {
    count: u64,
    counted: u64,
    acked: u64,
}

pub struct AckModel {
    w: Option<u32>,
    cands: Vec<Cand>,
    pub dead: bool,
    pub acks_seen: u64,
    pub calls_with_window: u64,
    pub reannouncements: u64,
}

impl AckModel {
    pub fn new() -> AckModel {
        AckModel {
            w: None,
            cands: vec![Cand { count: 0, counted: 0, acked: 0 }],
            dead: false,
            acks_seen: 0,
            calls_with_window: 0,
            reannouncements: 0,
        }
    }

    pub fn window(&self) -> Option<u32> {
        self.w
    }

    /// Returns Err(description) on a violation.
    pub fn step(&mut self, n: u64, acks: &[u32], windows: &[(u32, u64)]) -> Result<(), (&'static str, String)> {
        if self.dead {
            return Ok(());
        }
        match self.w {
            Some(w) => {
                self.calls_with_window += 1;
                let mut next = Vec::new();
                let mut expectations = Vec::new();
                for c in self.cands.iter() {
                    let c1 = c.count + n;
                    if c1 >= w as u64 {
                        expectations.push(format!("one Acknowledgement({})", c1 as u32));
                        if acks.len() == 1 && acks[0] == c1 as u32 {
                            next.push(Cand { count: 0, counted: c.counted + n, acked: c.acked + c1 });
                        }
                    } else {
                        expectations.push("no Acknowledgement".to_string());
                        if acks.is_empty() {
                            next.push(Cand { count: c1, counted: c.counted + n, acked: c.acked });
                        }
                    }
                }
                if next.is_empty() {
                    expectations.dedup();
                    let class = if acks.is_empty() {
                        "missing-ack"
                    } else if acks.len() > 1 {
                        "multiple-acks"
                    } else if expectations.iter().all(|e| e == "no Acknowledgement") {
                        "unexpected-ack"
                    } else {
                        "wrong-ack-value"
                    };
                    return Err((class, format!(
                        "window {} in force, call of {} bytes, outstanding before the call {:?}: expected {} but the call returned {:?}",
                        w,
                        n,
                        self.cands.iter().map(|c| c.count).collect::<Vec<_>>(),
                        expectations.join(" or "),
                        acks
                    )));
                }
                for c in next.iter() {
                    if c.count >= w as u64 {
                        return Err(("outstanding-not-below-window", format!("{} bytes outstanding after the call, window is {}", c.count, w)));
                    }
                    if c.acked + c.count != c.counted {
                        return Err(("conservation", format!("conservation broken: acknowledged {} + outstanding {} != counted {}", c.acked, c.count, c.counted)));
                    }
                }
                self.acks_seen += acks.len() as u64;
                self.cands = next;
            }
            None => {
                if !acks.is_empty() {
                    return Err(("ack-before-window", format!("Acknowledgement {:?} emitted before the peer announced a window", acks)));
                }
                if let Some((_, tail)) = windows.first() {
                    // the statement does not fix whether the bytes following the announcement
                    // inside the call that delivered it count: both are admissible
                    self.cands = vec![Cand { count: 0, counted: 0, acked: 0 }];
                    if *tail > 0 {
                        self.cands.push(Cand { count: *tail, counted: *tail, acked: 0 });
                    }
                }
            }
        }
        if let Some((v, _)) = windows.last() {
            if self.w.is_some() {
                self.reannouncements += 1;
            }
            if *v == 0 {
                self.dead = true; // W = 0 is outside the property
            }
            self.w = Some(*v);
        }
        Ok(())
    }
}
