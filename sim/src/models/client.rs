//! ClientModel (DESIGN.md appendix A.4): executable reference state machine for C10, written
//! from the property statement.  R = required, F = forbidden, P = permitted either way.

use rml_rtmp::sessions::StreamMetadata;
use std::collections::{BTreeMap, BTreeSet};

#[derive(Clone, Debug, PartialEq)]
pub enum COut {
    // events
    ConnAccepted,
    ConnRejected,
    PlayAccepted,
    PubAccepted,
    Meta { meta: StreamMetadata },
    Video { len: usize, hash: u64, ts: u32 },
    Audio { len: usize, hash: u64, ts: u32 },
    UnknownTx { tx: f64 },
    // decoded outbound packets
    Connect { tx: f64, app: Option<String>, msid: u32 },
    CreateStream { tx: f64, msid: u32 },
    Play { msid: u32, key: Option<String> },
    Publish { msid: u32, key: Option<String>, kind: Option<String> },
    DeleteStream { msid: u32, sid: Option<f64> },
    PingResp { ts: u32 },
    MediaPkt { type_id: u8, msid: u32, ts: u32, len: usize, hash: u64 },
    MetaPkt { msid: u32, meta: StreamMetadata },
}

impl COut {
    pub fn kind(&self) -> &'static str {
        match self {
            COut::ConnAccepted => "ConnectionRequestAccepted",
            COut::ConnRejected => "ConnectionRequestRejected",
            COut::PlayAccepted => "PlaybackRequestAccepted",
            COut::PubAccepted => "PublishRequestAccepted",
            COut::Meta { .. } => "StreamMetadataReceived",
            COut::Video { .. } => "VideoDataReceived",
            COut::Audio { .. } => "AudioDataReceived",
            COut::UnknownTx { .. } => "UnknownTransactionResultReceived",
            COut::Connect { .. } => "connect",
            COut::CreateStream { .. } => "createStream",
            COut::Play { .. } => "play",
            COut::Publish { .. } => "publish",
            COut::DeleteStream { .. } => "deleteStream",
            COut::PingResp { .. } => "PingResponse",
            COut::MediaPkt { .. } => "media-packet",
            COut::MetaPkt { .. } => "metadata-packet",
        }
    }
}

#[derive(Clone, Debug)]
pub enum CIn {
    /// sid = Some(integral stream id) when the first additional argument is such a number
    Result { tx: Option<u32>, raw_tx: f64, sid: Option<u32> },
    Error { tx: Option<u32>, raw_tx: f64 },
    /// code = None: malformed (no argument / not an object / no string code)
    /// msid = the message stream the status arrived on
    OnStatus { code: Option<String>, msid: u32 },
    Audio { msid: u32, len: usize, hash: u64, ts: u32 },
    Video { msid: u32, len: usize, hash: u64, ts: u32 },
    /// `onMetaData`, object on message stream msid; meta = None when the shape is malformed
    MetaData { msid: u32, meta: Option<StreamMetadata> },
    PingReq { ts: u32 },
    Other,
}

impl CIn {
    pub fn kind(&self) -> &'static str {
        match self {
            CIn::Result { .. } => "_result",
            CIn::Error { .. } => "_error",
            CIn::OnStatus { .. } => "onStatus",
            CIn::Audio { .. } => "audio",
            CIn::Video { .. } => "video",
            CIn::MetaData { .. } => "onMetaData",
            CIn::PingReq { .. } => "pingRequest",
            CIn::Other => "other",
        }
    }
}

#[derive(Clone, Copy, Debug, PartialEq, Eq, Hash)]
pub enum CSt {
    Disconnected,
    Connected,
    PlayRequested,
    Playing,
    PublishRequested,
    Publishing,
}

#[derive(Clone, Debug, PartialEq)]
pub enum Pend {
    Connect { app: String },
    Play { key: String },
    Publish { key: String, kind: String },
}

#[derive(Clone, Debug)]
pub struct ClientModel {
    pub st: CSt,
    pub pending: BTreeMap<u32, Pend>,
    pub issued_tx: BTreeSet<u32>,
    pub active: Option<u32>,
}

pub type Alts = Vec<(usize, ClientModel)>;

fn same_f64(a: f64, b: f64) -> bool {
    a.to_bits() == b.to_bits() || (a.is_nan() && b.is_nan())
}

impl ClientModel {
    pub fn new() -> ClientModel {
        ClientModel { st: CSt::Disconnected, pending: BTreeMap::new(), issued_tx: BTreeSet::new(), active: None }
    }

    pub fn summary(&self) -> String {
        format!("st={:?} active={:?} pending={:?}", self.st, self.active, self.pending)
    }

    pub fn state_hash(&self) -> u64 {
        use crate::engine::{fnv_new, fnv_u64};
        let mut h = fnv_new();
        h = fnv_u64(h, self.st as u64);
        h = fnv_u64(h, self.active.is_some() as u64);
        for p in self.pending.values() {
            h = fnv_u64(h, match p {
                Pend::Connect { .. } => 1,
                Pend::Play { .. } => 2,
                Pend::Publish { .. } => 3,
            });
        }
        h
    }

    fn none(&self) -> Alts {
        vec![(0, self.clone())]
    }

    /// May `handle_input` legitimately fail (close the session) on this input in this state?
    pub fn err_permitted(&self, input: &CIn) -> bool {
        match input {
            CIn::Result { tx, sid, .. } => match tx.and_then(|t| self.pending.get(&t)) {
                Some(Pend::Play { .. }) | Some(Pend::Publish { .. }) => sid.is_none(),
                _ => tx.is_none(),
            },
            CIn::Error { tx, .. } => matches!(tx.and_then(|t| self.pending.get(&t)), Some(Pend::Play { .. }) | Some(Pend::Publish { .. })) || tx.is_none(),
            CIn::OnStatus { code, .. } => match code.as_deref() {
                None => true,
                Some("NetStream.Play.Start") => self.st != CSt::PlayRequested,
                Some("NetStream.Publish.Start") => self.st != CSt::PublishRequested,
                _ => false,
            },
            CIn::Audio { .. } | CIn::Video { .. } => !matches!(self.st, CSt::PlayRequested | CSt::Playing),
            CIn::MetaData { meta, .. } => meta.is_none(),
            CIn::Other => true,
            CIn::PingReq { .. } => false,
        }
    }

    pub fn step(&self, input: &CIn, outs: &[COut]) -> Alts {
        let mut alts: Alts = Vec::new();
        match input {
            CIn::Result { tx, raw_tx, sid } => match tx.and_then(|t| self.pending.get(&t).map(|p| (t, p.clone()))) {
                Some((t, Pend::Connect { .. })) => {
                    if outs.first() == Some(&COut::ConnAccepted) {
                        let mut m = self.clone();
                        m.pending.remove(&t);
                        m.st = CSt::Connected;
                        alts.push((1, m));
                    }
                    if self.st != CSt::Disconnected {
                        // a second connect answered after we are connected: statement silent
                        let mut m = self.clone();
                        m.pending.remove(&t);
                        alts.push((0, m));
                    }
                }
                Some((t, Pend::Play { key })) => match sid {
                    Some(s) => {
                        if outs.first() == Some(&COut::Play { msid: *s, key: Some(key.clone()) }) {
                            let mut m = self.clone();
                            m.pending.remove(&t);
                            m.st = CSt::PlayRequested;
                            m.active = Some(*s);
                            alts.push((1, m));
                        }
                    }
                    None => alts.extend(self.none()), // P (Err closes the session)
                },
                Some((t, Pend::Publish { key, kind })) => match sid {
                    Some(s) => {
                        if outs.first() == Some(&COut::Publish { msid: *s, key: Some(key.clone()), kind: Some(kind.clone()) }) {
                            let mut m = self.clone();
                            m.pending.remove(&t);
                            m.st = CSt::PublishRequested;
                            m.active = Some(*s);
                            alts.push((1, m));
                        }
                    }
                    None => alts.extend(self.none()),
                },
                None => {
                    // unknown transaction: reported, not applied
                    if let Some(COut::UnknownTx { tx: got }) = outs.first() {
                        if same_f64(*got, *raw_tx) {
                            alts.push((1, self.clone()));
                        }
                    }
                }
            },
            CIn::Error { tx, raw_tx } => match tx.and_then(|t| self.pending.get(&t).map(|p| (t, p.clone()))) {
                Some((t, Pend::Connect { .. })) => {
                    if outs.first() == Some(&COut::ConnRejected) {
                        let mut m = self.clone();
                        m.pending.remove(&t);
                        alts.push((1, m));
                    }
                }
                Some((t, _)) => {
                    // P (Err closes the session); F any play / publish command
                    let mut m = self.clone();
                    m.pending.remove(&t);
                    alts.push((0, m));
                }
                None => {
                    if let Some(COut::UnknownTx { tx: got }) = outs.first() {
                        if same_f64(*got, *raw_tx) {
                            alts.push((1, self.clone()));
                        }
                    }
                }
            },
            CIn::OnStatus { code, msid } => match code.as_deref() {
                Some("NetStream.Play.Start") => {
                    if self.st == CSt::PlayRequested {
                        if outs.first() == Some(&COut::PlayAccepted) {
                            let mut m = self.clone();
                            m.st = CSt::Playing;
                            alts.push((1, m));
                        }
                        if self.active != Some(*msid) {
                            // on another message stream than the one the request runs on: whether
                            // that answers the request the statement does not say
                            alts.extend(self.none());
                        }
                    } else {
                        alts.extend(self.none()); // F accepted event and state change
                    }
                }
                Some("NetStream.Publish.Start") => {
                    if self.st == CSt::PublishRequested {
                        if outs.first() == Some(&COut::PubAccepted) {
                            let mut m = self.clone();
                            m.st = CSt::Publishing;
                            alts.push((1, m));
                        }
                        if self.active != Some(*msid) {
                            alts.extend(self.none());
                        }
                    } else {
                        alts.extend(self.none());
                    }
                }
                _ => alts.extend(self.none()),
            },
            CIn::Audio { msid, len, hash, ts } | CIn::Video { msid, len, hash, ts } => {
                let is_audio = matches!(input, CIn::Audio { .. });
                if matches!(self.st, CSt::PlayRequested | CSt::Playing) && self.active == Some(*msid) {
                    let want = if is_audio { COut::Audio { len: *len, hash: *hash, ts: *ts } } else { COut::Video { len: *len, hash: *hash, ts: *ts } };
                    if outs.first() == Some(&want) {
                        alts.push((1, self.clone()));
                    }
                } else {
                    alts.extend(self.none()); // F media event
                }
            }
            CIn::MetaData { msid, meta } => {
                let on_active = self.active == Some(*msid);
                let playing = matches!(self.st, CSt::PlayRequested | CSt::Playing);
                if on_active && playing {
                    match meta {
                        Some(mm) => {
                            if outs.first() == Some(&COut::Meta { meta: mm.clone() }) {
                                alts.push((1, self.clone()));
                            }
                        }
                        None => {
                            if matches!(outs.first(), Some(COut::Meta { .. })) {
                                alts.push((1, self.clone()));
                            }
                            alts.extend(self.none());
                        }
                    }
                } else if on_active && matches!(self.st, CSt::PublishRequested | CSt::Publishing) {
                    // whether metadata counts among the statement's "media events" is ambiguous
                    if matches!(outs.first(), Some(COut::Meta { .. })) {
                        alts.push((1, self.clone()));
                    }
                    alts.extend(self.none());
                } else {
                    alts.extend(self.none()); // F
                }
            }
            CIn::PingReq { ts } => {
                if outs.first() == Some(&COut::PingResp { ts: *ts }) {
                    alts.push((1, self.clone()));
                }
            }
            CIn::Other => alts.extend(self.none()),
        }
        alts
    }

    // ---- application calls: (ok, tracked outputs) -> successor or violation ----

    pub fn request_connection(&self, app: &str, ok: bool, outs: &[COut]) -> Result<ClientModel, (&'static str, String)> {
        if self.st == CSt::Disconnected {
            if !ok && self.pending.values().any(|p| matches!(p, Pend::Connect { .. })) {
                // a connect is already waiting for its answer: refusing a second one is a
                // reading of "connect when disconnected" the statement allows
                return self.refused("request_connection", ok, outs);
            }
            if !ok {
                return Err(("connect-refused", "request_connection returned Err while disconnected".to_string()));
            }
            match outs {
                [COut::Connect { tx, app: Some(a), msid: 0 }] if a == app && *tx >= 0.0 && tx.fract() == 0.0 && !self.issued_tx.contains(&(*tx as u32)) => {
                    let mut m = self.clone();
                    m.issued_tx.insert(*tx as u32);
                    m.pending.insert(*tx as u32, Pend::Connect { app: app.to_string() });
                    Ok(m)
                }
                _ => Err(("connect-wrong-output", format!("request_connection({:?}) should emit exactly one connect command with a fresh transaction id on stream 0, got {:?}", app, outs))),
            }
        } else {
            self.refused("request_connection", ok, outs)
        }
    }

    fn refused(&self, what: &str, ok: bool, outs: &[COut]) -> Result<ClientModel, (&'static str, String)> {
        if ok {
            return Err(("call-not-refused", format!("{} returned Ok in state {:?}, which does not permit it", what, self.st)));
        }
        if !outs.is_empty() {
            return Err(("refused-call-had-effects", format!("{} was refused but emitted {:?}", what, outs)));
        }
        Ok(self.clone())
    }

    pub fn request_stream(&self, play: bool, key: &str, kind: &str, ok: bool, outs: &[COut]) -> Result<ClientModel, (&'static str, String)> {
        let what = if play { "request_playback" } else { "request_publishing" };
        if self.st == CSt::Connected {
            if !ok && self.pending.values().any(|p| matches!(p, Pend::Play { .. } | Pend::Publish { .. })) {
                // a createStream is outstanding: the session may count itself as not idle
                return self.refused(what, ok, outs);
            }
            if !ok {
                return Err(("request-refused", format!("{} returned Err while connected and idle", what)));
            }
            match outs {
                [COut::CreateStream { tx, msid: 0 }] if *tx >= 0.0 && tx.fract() == 0.0 && !self.issued_tx.contains(&(*tx as u32)) => {
                    let mut m = self.clone();
                    m.issued_tx.insert(*tx as u32);
                    m.pending.insert(*tx as u32, if play { Pend::Play { key: key.to_string() } } else { Pend::Publish { key: key.to_string(), kind: kind.to_string() } });
                    Ok(m)
                }
                _ => Err(("request-wrong-output", format!("{} should emit exactly one createStream command with a fresh transaction id on stream 0, got {:?}", what, outs))),
            }
        } else {
            self.refused(what, ok, outs)
        }
    }

    pub fn stop(&self, play: bool, ok: bool, outs: &[COut]) -> Result<ClientModel, (&'static str, String)> {
        let what = if play { "stop_playback" } else { "stop_publishing" };
        let active_state = if play { matches!(self.st, CSt::PlayRequested | CSt::Playing) } else { matches!(self.st, CSt::PublishRequested | CSt::Publishing) };
        if !ok {
            // with nothing to stop, an Err is a refusal like any other ("otherwise refuses without
            // emitting bytes or changing state"); with an activity to stop it is a failure
            if active_state && self.active.is_some() {
                return Err(("stop-failed", format!("{} returned Err", what)));
            }
            if !outs.is_empty() {
                return Err(("refused-call-had-effects", format!("{} was refused but emitted {:?}", what, outs)));
            }
            return Ok(self.clone());
        }
        if active_state {
            let a = match self.active {
                Some(a) => a,
                None => return Ok(self.clone()),
            };
            match outs {
                [COut::DeleteStream { msid, sid: Some(s) }] if *msid == a && *s == a as f64 => {
                    let mut m = self.clone();
                    m.st = CSt::Connected;
                    m.active = None;
                    Ok(m)
                }
                _ => Err(("stop-wrong-output", format!("{} should emit exactly one deleteStream({}) on message stream {}, got {:?}", what, a, a, outs))),
            }
        } else {
            if !outs.is_empty() {
                return Err(("stop-had-effects", format!("{} in state {:?} emitted {:?}", what, self.st, outs)));
            }
            Ok(self.clone())
        }
    }

    pub fn publish_item(&self, want: &COut, ok: bool, outs: &[COut]) -> Result<ClientModel, (&'static str, String)> {
        if self.st == CSt::Publishing {
            if !ok {
                return Err(("publish-refused", "publish_* returned Err while publishing".to_string()));
            }
            if outs.len() == 1 && outs[0] == *want {
                Ok(self.clone())
            } else {
                Err(("publish-wrong-output", format!("publish_* should emit exactly {:?}, got {:?}", want.kind(), outs.iter().map(|o| o.kind()).collect::<Vec<_>>())))
            }
        } else {
            self.refused("publish_*", ok, outs)
        }
    }
}

pub fn match_call(m: &ClientModel, inputs: &[CIn], outs: &[COut]) -> Option<ClientModel> {
    if inputs.is_empty() {
        return if outs.is_empty() { Some(m.clone()) } else { None };
    }
    for (n, m2) in m.step(&inputs[0], outs) {
        if n <= outs.len() {
            if let Some(r) = match_call(&m2, &inputs[1..], &outs[n..]) {
                return Some(r);
            }
        }
    }
    None
}

fn deepest(m: &ClientModel, inputs: &[CIn], outs: &[COut], depth: usize) -> (usize, ClientModel, usize) {
    if inputs.is_empty() {
        return (depth, m.clone(), outs.len());
    }
    let alts = m.step(&inputs[0], outs);
    let mut best = (depth, m.clone(), outs.len());
    let mut first = true;
    for (n, m2) in alts {
        if n > outs.len() {
            continue;
        }
        let r = deepest(&m2, &inputs[1..], &outs[n..], depth + 1);
        if first || r.0 > best.0 {
            best = r;
            first = false;
        }
    }
    best
}

pub fn diagnose(m: &ClientModel, inputs: &[CIn], outs: &[COut]) -> (String, String) {
    let (d, model, left) = deepest(m, inputs, outs, 0);
    let rest = &outs[outs.len() - left..];
    let next_kind = rest.first().map(|o| o.kind()).unwrap_or("nothing");
    if d >= inputs.len() {
        return (
            format!("extra:{}", next_kind),
            format!("tracked outputs {:?} are left over after all input messages were explained (model state [{}])", rest.iter().map(|o| o.kind()).collect::<Vec<_>>(), model.summary()),
        );
    }
    (
        format!("{}:got-{}", inputs[d].kind(), next_kind),
        format!(
            "input message #{} ({:?}) in model state [{}]: the remaining tracked outputs {:?} match no admissible behaviour",
            d,
            inputs[d],
            model.summary(),
            rest.iter().map(|o| format!("{:?}", o)).collect::<Vec<_>>()
        ),
    )
}
