pub mod ack;
pub mod client;
pub mod server;
