pub mod ack;
pub mod server;
