pub mod ack;
