//! Registry: which world configuration and which oracles decide each claimed property.

use crate::engine::{Ctx, RunResult};
use crate::worlds;

pub struct PropSpec {
    pub id: &'static str,
    pub level: &'static str,
    pub quick_runs: u64,
    pub thorough_runs: u64,
    pub run: fn(&mut Ctx) -> RunResult,
    pub rule: &'static str,
    pub real: &'static [&'static str],
    pub stub: &'static [&'static str],
    pub assumptions: &'static [&'static str],
    /// probes that must be non-zero in the quick tier (reach self-check, reported in evidence)
    pub required_probes: &'static [&'static str],
}

pub fn all() -> Vec<PropSpec> {
    vec![
        PropSpec {
            id: "C01",
            level: "exploration",
            quick_runs: 400_000,
            thorough_runs: 12_000_000,
            run: |c| worlds::a::run(c, worlds::a::AMode::C01),
            rule: "one run = one seeded sender script (1-12 ops over messages / chunk-size changes, swarm knobs for type mix, stream ids, timestamp process, payload sizes, flags) pushed through the real serializer, cut into input calls by the link (7 segmentation modes incl. header-biased cuts) and decoded by the real deserializer; non-trivial = at least 2 accepted messages; distinct = distinct FNV-64 hash of the run's schedule trace (segment length buckets per delivery)",
            real: &["ChunkSerializer", "ChunkDeserializer", "MessagePayload", "RtmpTimestamp"],
            stub: &["link (segmentation)", "receiver driver honouring SetChunkSize", "RefChunkDecoder (only to locate header cut points)"],
            assumptions: &[
                "raw type-1 messages passed to serialize() announce the chunk size in force (anything else is API misuse)",
                "messages are bounded to 20,000 chunks each (payload <= 20,000 x chunk size) to keep runs affordable",
                "seeded search samples the space; a clean batch is evidence, not proof",
            ],
            required_probes: &["a.zero_len_msg", "a.multi_chunk_msg", "a.setchunk", "a.multi_call_delivery"],
        },
        PropSpec {
            id: "C03",
            level: "fault_enumeration",
            quick_runs: 300_000,
            thorough_runs: 10_000_000,
            run: |c| worlds::c03::run(c),
            rule: "one run = one live scenario (deserializer + message decoder, handshake, server session, client session) receiving a valid prefix and then hostile-peer faults: hostile message vocabulary in well-formed chunk streams (every type id, short / empty / mistyped AMF0 argument lists, huge declared counts, nesting <= 32) plus link faults bitflip / overwrite / truncate_packet / insert_garbage / duplicate_range / splice_header / close, at PRNG-chosen cuts; safety oracle only (returns, no panic incl. overflow checks, no abort/hang via worker supervision, attributed heap bound 1 MiB + 256 x bytes received + 32 MiB per node); non-trivial = at least one fault fired or 2 messages delivered; distinct = distinct schedule hash",
            real: &["ChunkDeserializer", "MessagePayload::to_rtmp_message", "rml_amf0::deserialize", "Handshake", "ServerSession", "ClientSession"],
            stub: &["RefChunkEncoder (hostile peer)", "RefAmf0 encoder", "link with hostile-peer faults", "counting allocator", "worker watchdog"],
            assumptions: &[
                "AMF0 nesting depth bounded to 32 (unbounded nesting is C14, not claimed)",
                "heap bound constant 256 x bytes received is deliberately generous (one 05 byte legitimately becomes a ~56-byte enum value)",
                "release build with overflow-checks and debug-assertions on, so arithmetic overflow is a panic",
            ],
            required_probes: &["c03.b.message_decoded", "c03.b.message_decode_err", "c03.b.deser_err", "c03.garbage_stream"],
        },
        PropSpec {
            id: "C15",
            level: "exploration",
            quick_runs: 150_000,
            thorough_runs: 5_000_000,
            run: |c| worlds::c15::run(c),
            rule: "one run = ONE byte stream (library-produced, foreign sequential, foreign multiplexed, each optionally with 1-3 mutations; scripted session streams) fed to four fresh instances through four partitions (one call; byte by byte; PRNG; PRNG biased to cuts inside header fields); outputs and error position must agree; non-trivial = stream of at least 20 bytes; distinct = distinct schedule hash of the two PRNG partitions",
            real: &["ChunkDeserializer", "ServerSession", "ClientSession"],
            stub: &["stream generators (World A sender, RefChunkEncoder)", "link partitions", "per-instance output taps"],
            assumptions: &[
                "sessions: no application calls are made during the stream under test; Acknowledgement messages are excluded (their placement depends on call boundaries by specification, see C17); the node clock is frozen",
                "outputs accumulated inside a failing call are discarded by the library together with the Err; 'agrees on everything delivered before it' is read as 'everything it did deliver'",
            ],
            required_probes: &["c15.library_stream", "c15.foreign_stream", "c15.mutated_stream", "c15.stream_ends_in_error"],
        },
        PropSpec {
            id: "C05",
            level: "exploration",
            quick_runs: 100_000,
            thorough_runs: 4_000_000,
            run: |c| worlds::c::run_c05(c),
            rule: "one run = one handshake exchange over two links: real client <-> real server, real client <-> reference server (original digest-less or fp9 with drawn scheme/offset), or reference client <-> real server; either side may start (proactively, lazily, via an empty-slice call); each side appends 0-300 application bytes right behind its packet 2; both links are cut and interleaved by the scheduler (1-byte pieces, pieces spanning p0|p1, p1|p2, p2|trailing); packet contents come from the RNG seam; distinct = distinct schedule hash (which direction delivered + segment buckets)",
            real: &["Handshake (client and/or server)"],
            stub: &["RefHandshake peer (own SHA-256/HMAC)", "two links", "scheduler", "RNG seam (hook H3)", "application routing bytes after completion"],
            assumptions: &["after Completed the driver routes further input to the application (process_bytes on a completed handshake is documented to fail)"],
            required_probes: &["c.real_vs_real", "c.real_client_vs_original_server", "c.real_server_vs_original_client", "c.real_client_vs_fp9_ref_server", "c.real_server_vs_fp9_ref_client", "c.completion_with_trailing_in_same_call", "c.server_starts_proactively", "c.lazy_start_with_empty_slice"],
        },
        PropSpec {
            id: "C11",
            level: "exploration",
            quick_runs: 5_824,
            thorough_runs: 1_000_000,
            run: |c| worlds::c::run_c11(c),
            rule: "stratified over the RNG seam: run index i fixes role (2), own digest offset i mod 728 (steered through the four selector bytes, low and high sums), the scheme (2) and offset (728, permuted) of the reference peer's packet 1; every run checks own packet 1 digest, packet 2 signature against the peer's digest, and the exact echo of a digest-less packet 1, with an independent SHA-256/HMAC; distinct = distinct (role, own offset, peer scheme, peer offset) strata; states = distinct (own|received, role, scheme, offset) cells of the grid, 4368 = full",
            real: &["Handshake"],
            stub: &["RefHandshake (packet 1 generator, verifier; own SHA-256/HMAC checked against FIPS 180-4 / RFC 4231 vectors)", "RNG seam (hook H3) with selector steering"],
            assumptions: &["the 32-byte suffix and the two role keys are taken from the public RTMPE clean-room description"],
            required_probes: &["c11.own_offset_as_steered", "c11.digestless_echo_checked"],
        },
        PropSpec {
            id: "C06",
            level: "exploration",
            quick_runs: 400_000,
            thorough_runs: 12_000_000,
            run: |c| worlds::b::run_c06(c),
            rule: "one run = one foreign chunk stream produced by the reference encoder for 1-10 messages sent one after another (free choices: csid 2..65599 biased to the 1/2/3-byte boundaries, any legal header format per message, extended timestamps incl. on continuation chunks, zero-length messages, in-band chunk sizes, non-negative deltas that wrap 2^32), cut by the link and decoded by the real deserializer; non-trivial = at least 2 messages; distinct = distinct schedule hash (per-chunk format/ext/csid choices + segment buckets); states = distinct chunk shapes",
            real: &["ChunkDeserializer"],
            stub: &["RefChunkEncoder (foreign sender)", "link (segmentation)", "receiver driver honouring SetChunkSize"],
            assumptions: &[
                "the reference encoder is hand-written from RTMP 1.0 section 5.3.1 and cross-validated against the strict reference decoder at every start",
                "messages bounded to 5,000 chunks each",
            ],
            required_probes: &["b.fmt1", "b.fmt2", "b.fmt3_new_message", "b.ext_first", "b.ext_on_continuation", "b.csid_2byte", "b.csid_3byte", "b.zero_len_msg", "b.setchunk"],
        },
        PropSpec {
            id: "C16",
            level: "exploration",
            quick_runs: 300_000,
            thorough_runs: 10_000_000,
            run: |c| worlds::b::run_c16(c),
            rule: "one run = one foreign chunk stream with 2-4 messages in flight on distinct csids; the scheduler picks chunk by chunk which stream emits next (each message's own chunks stay in order); the real deserializer must deliver every message at its last chunk, in completion order, with its own fields and bytes; non-trivial = at least 2 switches between streams that both have a message in flight; distinct = distinct schedule hash (which stream emitted each chunk + segment buckets)",
            real: &["ChunkDeserializer"],
            stub: &["RefChunkEncoder (multiplexing foreign sender)", "link (segmentation)", "receiver driver"],
            assumptions: &["chunk-size changes are emitted only while no message is in flight", "one message at a time per csid"],
            required_probes: &["b.interleaved_run"],
        },
        PropSpec {
            id: "C07",
            level: "exploration",
            quick_runs: 400_000,
            thorough_runs: 12_000_000,
            run: |c| worlds::a::run(c, worlds::a::AMode::C07),
            rule: "one run = one seeded sender script through the real serializer; the recorded wire history (all packets in production order) is parsed by the strict reference decoder; non-trivial = at least 2 accepted messages; distinct = distinct hash of the script's operation classes; states = distinct (format, extended?, first?, csid, empty?) chunk shapes seen on the wire",
            real: &["ChunkSerializer", "MessagePayload::from_rtmp_message (SetChunkSize)"],
            stub: &["RefChunkDecoder (strict specification decoder, oracle)"],
            assumptions: &[
                "leniency: a format-0 header repeated on a continuation chunk with identical fields is accepted as continuation (RTMP 1.0 says SHOULD be format 3)",
                "the reference decoder is hand-written from RTMP 1.0 section 5.3.1 and cross-validated against the reference encoder at start-up",
            ],
            required_probes: &["a.fmt3_new_message", "a.ext_on_continuation", "a.ext_timestamp", "a.fmt1", "a.fmt2"],
        },
        PropSpec {
            id: "C08",
            level: "fault_enumeration",
            quick_runs: 60_000,
            thorough_runs: 2_000_000,
            run: |c| worlds::a::run(c, worlds::a::AMode::C08),
            rule: "one run = one seeded sender script with raised droppable-flag probability; fault = drop_droppable per packet: ALL 2^k subsets when k <= 6 (quick) / 8 (thorough) droppable packets, else none + all + 6 sampled subsets; each subset's surviving wire is checked by the strict reference decoder and by the real deserializer under the run's segmentation; non-trivial = at least 1 droppable packet and 2 messages; distinct = distinct schedule hash (subset masks + segment buckets)",
            real: &["ChunkSerializer", "ChunkDeserializer"],
            stub: &["link (segmentation + drop_droppable fault)", "RefChunkDecoder (strict)"],
            assumptions: &["packets not marked droppable are never dropped (library contract)"],
            required_probes: &["c08.exhaustive_subset_scripts", "c08.subset_executions"],
        },
        PropSpec {
            id: "C19",
            level: "exploration",
            quick_runs: 150_000,
            thorough_runs: 4_000_000,
            run: |c| worlds::c19::run(c),
            rule: "one run = World A (codec) or World D (session pair) scenario with every configuration knob drawn from an edge-biased distribution over its full type range (chunk size 0/1/2/127..129/4096/2^31-2..2^31/2^32-1/uniform, windows, bandwidth, string lengths 0/1/65535/65536, payloads around 16,777,215); a value is either refused (mandatory for inexpressible values) or the C01/C02 oracle must hold within the step budget, the heap bound and the worker supervision; non-trivial = at least one edge value was drawn; distinct = distinct schedule hash",
            real: &["ChunkSerializer", "ChunkDeserializer", "ServerSession", "ClientSession", "rml_amf0"],
            stub: &["link", "application drivers", "worker supervision (watchdog, heap cap)"],
            assumptions: &["an Err that surfaces later than the setter (e.g. client chunk size applied on connect success) counts as refused"],
            required_probes: &["a.refused_chunk_size"],
        },
    ]
}

pub fn find(id: &str) -> Option<PropSpec> {
    all().into_iter().find(|p| p.id == id)
}
