//! Counting allocator.  Every block carries a header recording its size and the *tag* that
//! was current when it was allocated.  Tag 0 = simulator / application; tag k>0 = "inside an
//! input-processing library call of node k".  The simulator reads the per-tag live/peak byte
//! counts to enforce the attributed heap bound (C03/C19), and a hard cap turns runaway
//! allocation into a deterministic abort instead of an OOM kill.

use std::alloc::{GlobalAlloc, Layout, System};
use std::sync::atomic::{AtomicI64, AtomicU32, AtomicU64, Ordering::Relaxed};

pub const MAX_TAGS: usize = 8;

static CUR_TAG: AtomicU32 = AtomicU32::new(0);
static LIVE: [AtomicI64; MAX_TAGS] = [
    AtomicI64::new(0),
    AtomicI64::new(0),
    AtomicI64::new(0),
    AtomicI64::new(0),
    AtomicI64::new(0),
    AtomicI64::new(0),
    AtomicI64::new(0),
    AtomicI64::new(0),
];
static PEAK: [AtomicI64; MAX_TAGS] = [
    AtomicI64::new(0),
    AtomicI64::new(0),
    AtomicI64::new(0),
    AtomicI64::new(0),
    AtomicI64::new(0),
    AtomicI64::new(0),
    AtomicI64::new(0),
    AtomicI64::new(0),
];
static TOTAL_LIVE: AtomicI64 = AtomicI64::new(0);
static HARD_CAP: AtomicU64 = AtomicU64::new(u64::MAX);

pub struct Counting;

#[inline]
fn hdr(align: usize) -> usize {
    if align > 16 {
        align
    } else {
        16
    }
}

#[inline]
fn account_alloc(tag: usize, size: usize) {
    let live = LIVE[tag].fetch_add(size as i64, Relaxed) + size as i64;
    if live > PEAK[tag].load(Relaxed) {
        PEAK[tag].store(live, Relaxed);
    }
    let total = TOTAL_LIVE.fetch_add(size as i64, Relaxed) + size as i64;
    if total > 0 && total as u64 > HARD_CAP.load(Relaxed) {
        hard_cap_abort();
    }
}

#[cold]
fn hard_cap_abort() -> ! {
    let msg = b"rtmpsim: HARD-HEAP-CAP exceeded, aborting (deterministic OOM stand-in)\n";
    unsafe {
        libc::write(2, msg.as_ptr() as *const libc::c_void, msg.len());
        libc::abort();
    }
}

unsafe impl GlobalAlloc for Counting {
    unsafe fn alloc(&self, layout: Layout) -> *mut u8 {
        let h = hdr(layout.align());
        let total = match layout.size().checked_add(h) {
            Some(t) => t,
            None => return std::ptr::null_mut(),
        };
        let l = match Layout::from_size_align(total, h) {
            Ok(l) => l,
            Err(_) => return std::ptr::null_mut(),
        };
        let tag = CUR_TAG.load(Relaxed) as usize;
        account_alloc(tag, layout.size());
        let base = System.alloc(l);
        if base.is_null() {
            return base;
        }
        *(base as *mut u64) = layout.size() as u64;
        *((base as *mut u64).add(1)) = tag as u64;
        base.add(h)
    }

    unsafe fn dealloc(&self, ptr: *mut u8, layout: Layout) {
        let h = hdr(layout.align());
        let base = ptr.sub(h);
        let size = *(base as *mut u64) as usize;
        let tag = *((base as *mut u64).add(1)) as usize;
        LIVE[tag].fetch_sub(size as i64, Relaxed);
        TOTAL_LIVE.fetch_sub(size as i64, Relaxed);
        System.dealloc(base, Layout::from_size_align_unchecked(size + h, h));
    }

    unsafe fn realloc(&self, ptr: *mut u8, layout: Layout, new_size: usize) -> *mut u8 {
        let h = hdr(layout.align());
        let base = ptr.sub(h);
        let old_size = *(base as *mut u64) as usize;
        let tag = *((base as *mut u64).add(1)) as usize;
        let new_total = match new_size.checked_add(h) {
            Some(t) => t,
            None => return std::ptr::null_mut(),
        };
        if new_size > old_size {
            account_alloc(tag, new_size - old_size);
        } else {
            LIVE[tag].fetch_sub((old_size - new_size) as i64, Relaxed);
            TOTAL_LIVE.fetch_sub((old_size - new_size) as i64, Relaxed);
        }
        let nb = System.realloc(
            base,
            Layout::from_size_align_unchecked(old_size + h, h),
            new_total,
        );
        if nb.is_null() {
            // undo accounting
            if new_size > old_size {
                LIVE[tag].fetch_sub((new_size - old_size) as i64, Relaxed);
                TOTAL_LIVE.fetch_sub((new_size - old_size) as i64, Relaxed);
            } else {
                LIVE[tag].fetch_add((old_size - new_size) as i64, Relaxed);
                TOTAL_LIVE.fetch_add((old_size - new_size) as i64, Relaxed);
            }
            return nb;
        }
        *(nb as *mut u64) = new_size as u64;
        nb.add(h)
    }
}

pub fn set_hard_cap(bytes: u64) {
    HARD_CAP.store(bytes, Relaxed);
}

/// Run `f` with allocations attributed to `tag` (1..MAX_TAGS).
#[inline]
pub fn tagged<R>(tag: u32, f: impl FnOnce() -> R) -> R {
    let prev = CUR_TAG.swap(tag, Relaxed);
    let r = f();
    CUR_TAG.store(prev, Relaxed);
    r
}

pub fn reset_tag() {
    CUR_TAG.store(0, Relaxed);
}

pub fn live(tag: usize) -> i64 {
    LIVE[tag].load(Relaxed)
}

pub fn peak(tag: usize) -> i64 {
    PEAK[tag].load(Relaxed)
}

/// Start a new measurement epoch for a tag: peak := current live.
pub fn reset_peak(tag: usize) {
    PEAK[tag].store(LIVE[tag].load(Relaxed), Relaxed);
}

pub fn total_live() -> i64 {
    TOTAL_LIVE.load(Relaxed)
}
