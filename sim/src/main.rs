//! rtmpsim -- deterministic simulation with fault injection for rust-media-libs.

mod alloc;
mod choice;
mod engine;
mod json;
mod link;
mod models;
mod orch;
mod props;
mod refs;
mod runner;
mod selftest;
mod shrink;
mod worlds;

#[global_allocator]
static GLOBAL: alloc::Counting = alloc::Counting;

use std::collections::BTreeMap;

fn parse_args(args: &[String]) -> (BTreeMap<String, String>, Vec<String>) {
    let mut m = BTreeMap::new();
    let mut flags = Vec::new();
    let mut i = 0;
    while i < args.len() {
        let a = &args[i];
        if let Some(k) = a.strip_prefix("--") {
            if i + 1 < args.len() && !args[i + 1].starts_with("--") {
                m.insert(k.to_string(), args[i + 1].clone());
                i += 2;
            } else {
                flags.push(k.to_string());
                i += 1;
            }
        } else {
            flags.push(a.clone());
            i += 1;
        }
    }
    (m, flags)
}

fn env_seed() -> u64 {
    std::env::var("VERIF_SEED").ok().and_then(|s| s.trim().parse::<u64>().ok()).unwrap_or(runner::DEFAULT_SEED)
}

fn verif_dir() -> String {
    std::env::var("VERIF_DIR").unwrap_or_else(|_| "/verif".to_string())
}

fn main() {
    let argv: Vec<String> = std::env::args().collect();
    if argv.len() < 2 {
        eprintln!("usage: rtmpsim check|replay|selftest|run1 ...");
        std::process::exit(2);
    }
    engine::install_panic_hook();
    let (m, flags) = parse_args(&argv[2..]);
    let has = |f: &str| flags.iter().any(|x| x == f);
    let get = |k: &str| m.get(k).cloned();
    let tier_thorough = |m: &BTreeMap<String, String>| -> bool {
        match m.get("tier").cloned().or_else(|| std::env::var("VERIF_TIER").ok()) {
            Some(t) => t == "thorough",
            None => false,
        }
    };
    let code = match argv[1].as_str() {
        "check" => {
            let prop = get("property").unwrap_or_default();
            let spec = match props::find(&prop) {
                Some(s) => s,
                None => {
                    eprintln!("HARNESS ERROR: no check registered for property {:?}", prop);
                    std::process::exit(2);
                }
            };
            let a = orch::CheckArgs {
                prop: prop.clone(),
                thorough: tier_thorough(&m),
                seed: get("seed").and_then(|s| s.parse().ok()).unwrap_or_else(env_seed),
                workers: get("workers").and_then(|s| s.parse().ok()).unwrap_or(16),
                runs: get("runs").and_then(|s| s.parse().ok()).or_else(|| {
                    // --scale 0.25 runs a quarter of the tier's run count
                    get("scale").and_then(|s| s.parse::<f64>().ok()).map(|f| {
                        let base = if tier_thorough(&m) { spec.thorough_runs } else { spec.quick_runs };
                        ((base as f64 * f) as u64).max(1)
                    })
                }),
                verif_dir: verif_dir(),
                write_evidence: !has("no-evidence"),
                no_shrink: has("no-shrink"),
                log_hashes: false,
            };
            orch::check(&spec, &a)
        }
        "worker" => {
            let prop = get("property").unwrap_or_default();
            let spec = props::find(&prop).expect("property");
            let a = runner::WorkerArgs {
                prop,
                thorough: tier_thorough(&m),
                seed: get("seed").and_then(|s| s.parse().ok()).unwrap_or(runner::DEFAULT_SEED),
                k: get("k").and_then(|s| s.parse().ok()).unwrap_or(0),
                of: get("of").and_then(|s| s.parse().ok()).unwrap_or(1),
                start: get("start").and_then(|s| s.parse().ok()).unwrap_or(0),
                total: get("total").and_then(|s| s.parse().ok()).unwrap_or(0),
                out: get("out").unwrap_or_default(),
                status: get("status").unwrap_or_default(),
                want_samples: has("samples"),
                log_hashes: has("log-hashes"),
            };
            runner::worker_main(&spec, &a)
        }
        "shrink" => {
            let prop = get("property").unwrap_or_default();
            let spec = props::find(&prop).expect("property");
            alloc::set_hard_cap(3 << 30);
            orch::shrink_main(
                &spec,
                tier_thorough(&m),
                get("seed").and_then(|s| s.parse().ok()).unwrap_or(runner::DEFAULT_SEED),
                get("run-index").and_then(|s| s.parse().ok()).unwrap_or(0),
                &get("sig").unwrap_or_default(),
                &get("out").unwrap_or_default(),
            )
        }
        "replay" => {
            let path = get("file").unwrap_or_default();
            let rf = match orch::read_replay(&path) {
                Ok(r) => r,
                Err(e) => {
                    eprintln!("HARNESS ERROR: {}", e);
                    std::process::exit(2);
                }
            };
            let spec = match props::find(&rf.property) {
                Some(s) => s,
                None => {
                    eprintln!("HARNESS ERROR: no check registered for property {:?}", rf.property);
                    std::process::exit(2);
                }
            };
            alloc::set_hard_cap(3 << 30);
            let quiet = has("quiet");
            let out = orch::replay_outcome(&spec, &rf, !quiet);
            if !quiet {
                for l in out.trace.iter() {
                    println!("{}", l);
                }
                println!("event_log_hash={:016x}", out.log_hash);
            }
            match out.violation {
                Some(v) => {
                    if !quiet {
                        println!("signature: {}", v.sig);
                        println!("message:   {}", v.msg);
                        if v.sig == rf.signature {
                            if let Some(h) = rf.event_log_hash {
                                if h != out.log_hash {
                                    println!("note: event-log hash differs from the recorded one ({:016x}): the tree under test changed since the file was written", h);
                                } else {
                                    println!("replay reproduced the recorded violation exactly (same signature, same event-log hash)");
                                }
                            }
                        } else {
                            println!("note: recorded signature was {}", rf.signature);
                        }
                        println!("VIOLATION property={} replay={}", rf.property, path);
                    }
                    1
                }
                None => {
                    if !quiet {
                        println!("no violation: the property holds on this tree for this schedule");
                    }
                    0
                }
            }
        }
        "run1" => {
            // debug helper: one generated run with tracing
            let prop = get("property").unwrap_or_default();
            let spec = props::find(&prop).expect("property");
            let idx = get("run-index").and_then(|s| s.parse().ok()).unwrap_or(0);
            let seed = get("seed").and_then(|s| s.parse().ok()).unwrap_or_else(env_seed);
            let out = runner::exec_generated(&spec, seed, tier_thorough(&m), idx, true);
            for l in out.trace.iter() {
                println!("{}", l);
            }
            println!("choices={} steps={} nontrivial={} log_hash={:016x}", out.choices.len(), out.steps, out.nontrivial, out.log_hash);
            match out.violation {
                Some(v) => {
                    println!("signature: {}\nmessage: {}", v.sig, v.msg);
                    1
                }
                None => 0,
            }
        }
        "selftest" => {
            let what = flags.first().cloned().unwrap_or_else(|| "stubs".to_string());
            match what.as_str() {
                "stubs" => match selftest::stubs() {
                    Ok(()) => {
                        println!("stub self-tests passed");
                        0
                    }
                    Err(e) => {
                        eprintln!("stub self-test FAILED: {}", e);
                        2
                    }
                },
                "determinism" => selftest::determinism(&verif_dir(), get("runs").and_then(|s| s.parse().ok()).unwrap_or(20_000), get("property")),
                _ => {
                    eprintln!("unknown selftest");
                    2
                }
            }
        }
        other => {
            eprintln!("unknown command {}", other);
            2
        }
    };
    std::process::exit(code);
}
