//! Generic choice-stream minimiser.  Because value 0 is the simplest choice for every label
//! and an exhausted stream yields zeros, every candidate is a valid run.

use std::time::{Duration, Instant};

pub struct ShrinkStats {
    pub candidates: u64,
    pub accepted: u64,
}

pub struct Budget {
    pub max_candidates: u64,
    pub max_time: Duration,
}

/// `test` returns true when the candidate still shows the *same violation signature*.
pub fn shrink(
    initial: Vec<u64>,
    budget: Budget,
    mut test: impl FnMut(&[u64]) -> bool,
) -> (Vec<u64>, ShrinkStats) {
    let start = Instant::now();
    let mut st = ShrinkStats {
        candidates: 0,
        accepted: 0,
    };
    let mut cur = initial;
    trim(&mut cur);

    let mut try_cand = |cand: &[u64], st: &mut ShrinkStats| -> Option<bool> {
        if st.candidates >= budget.max_candidates || start.elapsed() > budget.max_time {
            return None;
        }
        st.candidates += 1;
        let ok = test(cand);
        if ok {
            st.accepted += 1;
        }
        Some(ok)
    };

    // pass 1: truncate the tail (binary search on the kept prefix length)
    {
        let mut lo = 0usize; // known: prefix of length hi fails; find the smallest
        let mut hi = cur.len();
        while lo < hi {
            let mid = (lo + hi) / 2;
            match try_cand(&cur[..mid], &mut st) {
                None => break,
                Some(true) => hi = mid,
                Some(false) => lo = mid + 1,
            }
        }
        cur.truncate(hi);
        trim(&mut cur);
    }

    loop {
        let mut progress = false;

        // pass 2: delete blocks
        let mut size = 64usize;
        while size >= 1 {
            let mut i = cur.len();
            while i > 0 {
                let startx = i.saturating_sub(size);
                if startx < i {
                    let mut cand = Vec::with_capacity(cur.len());
                    cand.extend_from_slice(&cur[..startx]);
                    cand.extend_from_slice(&cur[i..]);
                    match try_cand(&cand, &mut st) {
                        None => {
                            trim(&mut cur);
                            return (cur, st);
                        }
                        Some(true) => {
                            cur = cand;
                            progress = true;
                            i = startx;
                            continue;
                        }
                        Some(false) => {}
                    }
                }
                i = startx;
            }
            size /= 2;
        }

        // pass 3: zero values
        for i in 0..cur.len() {
            if cur[i] != 0 {
                let old = cur[i];
                cur[i] = 0;
                match try_cand(&cur, &mut st) {
                    None => {
                        cur[i] = old;
                        trim(&mut cur);
                        return (cur, st);
                    }
                    Some(true) => progress = true,
                    Some(false) => cur[i] = old,
                }
            }
        }

        // pass 4: minimise values by binary search
        for i in 0..cur.len() {
            if cur[i] > 1 {
                let mut lo = 0u64; // lo fails-to-reproduce (known from pass 3 or assumed)
                let mut hi = cur[i]; // hi reproduces
                while lo + 1 < hi {
                    let mid = lo + (hi - lo) / 2;
                    let old = cur[i];
                    cur[i] = mid;
                    match try_cand(&cur, &mut st) {
                        None => {
                            cur[i] = old;
                            trim(&mut cur);
                            return (cur, st);
                        }
                        Some(true) => {
                            hi = mid;
                            progress = true;
                        }
                        Some(false) => {
                            cur[i] = old;
                            lo = mid;
                        }
                    }
                    cur[i] = hi;
                }
                cur[i] = hi;
            }
        }

        trim(&mut cur);
        if !progress {
            break;
        }
    }
    (cur, st)
}

fn trim(v: &mut Vec<u64>) {
    while v.last() == Some(&0) {
        v.pop();
    }
}
