//! Orchestrator: worker processes, watchdog, aggregation, shrinking, replay files,
//! known findings, evidence.

use crate::json::{self, J};
use crate::props::PropSpec;
use crate::runner::{self, exec_generated, exec_replay};
use crate::shrink;
use std::collections::{BTreeMap, BTreeSet};
use std::io::Read;
use std::process::{Child, Command, Stdio};
use std::time::{Duration, Instant};

pub struct CheckArgs {
    pub prop: String,
    pub thorough: bool,
    pub seed: u64,
    pub workers: u64,
    pub runs: Option<u64>,
    pub verif_dir: String,
    pub write_evidence: bool,
    pub log_hashes: bool,
    /// tools only (robustness sweeps over mutants): report violations with regenerating replay
    /// files, skip minimisation
    pub no_shrink: bool,
}

struct WorkerSlot {
    k: u64,
    child: Child,
    out: String,
    status: String,
    stderr_path: String,
    last_idx: u64,
    last_change: Instant,
    done: bool,
}

#[derive(Clone)]
pub struct Found {
    pub run_index: u64,
    pub sig: String,
    pub msg: String,
}

fn work_dir(verif_dir: &str) -> String {
    let d = format!("{}/sim/target/work/{}", verif_dir, std::process::id());
    let _ = std::fs::create_dir_all(&d);
    d
}

fn spawn_worker(a: &CheckArgs, k: u64, start: u64, total: u64, dir: &str, gen: u64) -> std::io::Result<WorkerSlot> {
    let out = format!("{}/w{}_{}.json", dir, k, gen);
    let status = format!("{}/w{}_{}.status", dir, k, gen);
    let stderr_path = format!("{}/w{}_{}.stderr", dir, k, gen);
    let _ = std::fs::remove_file(&status);
    let stderr_file = std::fs::File::create(&stderr_path)?;
    let exe = std::env::current_exe()?;
    let mut cmd = Command::new(exe);
    cmd.arg("worker")
        .arg("--property")
        .arg(&a.prop)
        .arg("--tier")
        .arg(if a.thorough { "thorough" } else { "quick" })
        .arg("--seed")
        .arg(a.seed.to_string())
        .arg("--k")
        .arg(k.to_string())
        .arg("--of")
        .arg(a.workers.to_string())
        .arg("--start")
        .arg(start.to_string())
        .arg("--total")
        .arg(total.to_string())
        .arg("--out")
        .arg(&out)
        .arg("--status")
        .arg(&status);
    if k == 0 && gen == 0 {
        cmd.arg("--samples");
    }
    if a.log_hashes {
        cmd.arg("--log-hashes");
    }
    let child = cmd.stdin(Stdio::null()).stdout(Stdio::null()).stderr(stderr_file).spawn()?;
    Ok(WorkerSlot {
        k,
        child,
        out,
        status,
        stderr_path,
        last_idx: u64::MAX - 1,
        last_change: Instant::now(),
        done: false,
    })
}

fn read_status(path: &str) -> Option<u64> {
    let mut f = std::fs::File::open(path).ok()?;
    let mut b = [0u8; 8];
    f.read_exact(&mut b).ok()?;
    Some(u64::from_le_bytes(b))
}

fn read_u64s(path: &str) -> Vec<u64> {
    let bytes = std::fs::read(path).unwrap_or_default();
    bytes.chunks_exact(8).map(|c| u64::from_le_bytes([c[0], c[1], c[2], c[3], c[4], c[5], c[6], c[7]])).collect()
}

#[derive(Default)]
pub struct Agg {
    pub runs: u64,
    pub nontrivial: u64,
    pub steps: u64,
    pub sim_time_ns: u128,
    pub lib_calls: u64,
    pub bytes_delivered: u64,
    pub probes: BTreeMap<String, u64>,
    pub faults: BTreeMap<String, u64>,
    pub worlds: BTreeMap<String, u64>,
    pub sched: BTreeSet<u64>,
    pub states: BTreeSet<u64>,
    pub sched_capped: bool,
    pub samples: Vec<J>,
    pub found: Vec<Found>,
    pub log_hashes: BTreeMap<u64, u64>,
}

fn absorb(agg: &mut Agg, slot: &WorkerSlot) -> Result<(), String> {
    let text = std::fs::read_to_string(&slot.out).map_err(|e| format!("worker {} result unreadable: {}", slot.k, e))?;
    let j = json::parse(&text).map_err(|e| format!("worker {} result unparsable: {}", slot.k, e))?;
    let g = |k: &str| j.get(k).and_then(|v| v.as_u64()).unwrap_or(0);
    agg.runs += g("runs");
    agg.nontrivial += g("nontrivial");
    agg.steps += g("steps");
    agg.lib_calls += g("lib_calls");
    agg.bytes_delivered += g("bytes_delivered");
    if let Some(J::Int(i)) = j.get("sim_time_ns") {
        agg.sim_time_ns += *i as u128;
    }
    if let Some(J::Bool(true)) = j.get("sched_capped") {
        agg.sched_capped = true;
    }
    for (name, dst) in [("probes", &mut agg.probes), ("faults", &mut agg.faults), ("worlds", &mut agg.worlds)] {
        if let Some(items) = j.get(name).and_then(|v| v.as_obj()) {
            for (k, v) in items {
                *dst.entry(k.clone()).or_insert(0) += v.as_u64().unwrap_or(0);
            }
        }
    }
    if let Some(vs) = j.get("violations").and_then(|v| v.as_arr()) {
        for v in vs {
            agg.found.push(Found {
                run_index: v.get("run_index").and_then(|x| x.as_u64()).unwrap_or(0),
                sig: v.get("sig").and_then(|x| x.as_str()).unwrap_or("?").to_string(),
                msg: v.get("msg").and_then(|x| x.as_str()).unwrap_or("?").to_string(),
            });
        }
    }
    if let Some(ss) = j.get("samples").and_then(|v| v.as_arr()) {
        for s in ss {
            agg.samples.push(s.clone());
        }
    }
    if let Some(hs) = j.get("log_hashes").and_then(|v| v.as_arr()) {
        for h in hs {
            if let Some(p) = h.as_arr() {
                if p.len() == 2 {
                    agg.log_hashes.insert(p[0].as_u64().unwrap_or(0), p[1].as_u64().unwrap_or(0));
                }
            }
        }
    }
    for x in read_u64s(&format!("{}.sched", slot.out)) {
        agg.sched.insert(x);
    }
    for x in read_u64s(&format!("{}.states", slot.out)) {
        agg.states.insert(x);
    }
    Ok(())
}

fn classify_crash(stderr_path: &str, status: &std::process::ExitStatus) -> (&'static str, String) {
    let text = std::fs::read_to_string(stderr_path).unwrap_or_default();
    use std::os::unix::process::ExitStatusExt;
    let sig = status.signal();
    if text.contains("HARD-HEAP-CAP") || text.contains("memory allocation of") {
        ("memory-exhausted", format!("worker aborted after exhausting the heap cap (signal {:?})", sig))
    } else if text.contains("overflowed its stack") {
        ("stack-overflow", format!("worker overflowed its stack (signal {:?})", sig))
    } else {
        ("crash", format!("worker died: status {:?} signal {:?}; stderr: {}", status.code(), sig, text.chars().take(300).collect::<String>()))
    }
}

/// Run all workers to completion under supervision.  Returns Err for harness problems.
pub fn run_workers(a: &CheckArgs, total: u64, watchdog: Duration) -> Result<Agg, String> {
    let dir = work_dir(&a.verif_dir);
    let mut agg = Agg::default();
    let mut slots: Vec<WorkerSlot> = Vec::new();
    for k in 0..a.workers {
        slots.push(spawn_worker(a, k, 0, total, &dir, 0).map_err(|e| format!("spawn failed: {}", e))?);
    }
    let mut gen = 0u64;
    let mut supervision_violations = 0u64;
    loop {
        let mut all_done = true;
        for i in 0..slots.len() {
            if slots[i].done {
                continue;
            }
            all_done = false;
            let st = read_status(&slots[i].status);
            if let Some(idx) = st {
                if idx != slots[i].last_idx {
                    slots[i].last_idx = idx;
                    slots[i].last_change = Instant::now();
                }
            }
            match slots[i].child.try_wait() {
                Ok(Some(status)) => {
                    if status.success() {
                        absorb(&mut agg, &slots[i])?;
                        slots[i].done = true;
                    } else if status.code() == Some(2) {
                        return Err(format!("worker {} reported a harness error: {}", slots[i].k, std::fs::read_to_string(&slots[i].stderr_path).unwrap_or_default()));
                    } else {
                        // died: the status slot names the run
                        let idx = read_status(&slots[i].status).unwrap_or(u64::MAX);
                        let (class, detail) = classify_crash(&slots[i].stderr_path, &status);
                        if idx == u64::MAX {
                            return Err(format!("worker {} died outside a run: {}", slots[i].k, detail));
                        }
                        agg.found.push(Found {
                            run_index: idx,
                            sig: format!("{}/supervision/{}", a.prop, class),
                            msg: detail,
                        });
                        supervision_violations += 1;
                        let k = slots[i].k;
                        if supervision_violations >= 3 || idx + a.workers >= total {
                            slots[i].done = true;
                        } else {
                            gen += 1;
                            slots[i] = spawn_worker(a, k, idx + 1, total, &dir, gen).map_err(|e| format!("respawn failed: {}", e))?;
                        }
                    }
                }
                Ok(None) => {
                    if slots[i].last_change.elapsed() > watchdog {
                        let idx = slots[i].last_idx;
                        let _ = slots[i].child.kill();
                        let _ = slots[i].child.wait();
                        agg.found.push(Found {
                            run_index: idx,
                            sig: format!("{}/supervision/hang", a.prop),
                            msg: format!("run {} did not finish within {} s of wall clock", idx, watchdog.as_secs()),
                        });
                        supervision_violations += 1;
                        let k = slots[i].k;
                        if supervision_violations >= 3 || idx + a.workers >= total {
                            slots[i].done = true;
                        } else {
                            gen += 1;
                            slots[i] = spawn_worker(a, k, idx + 1, total, &dir, gen).map_err(|e| format!("respawn failed: {}", e))?;
                        }
                    }
                }
                Err(e) => return Err(format!("wait failed: {}", e)),
            }
        }
        if all_done {
            break;
        }
        if supervision_violations >= 3 {
            for s in slots.iter_mut() {
                if !s.done {
                    let _ = s.child.kill();
                    let _ = s.child.wait();
                    s.done = true;
                }
            }
            break;
        }
        std::thread::sleep(Duration::from_millis(20));
    }
    let _ = std::fs::remove_dir_all(&dir);
    Ok(agg)
}

// ---------------------------------------------------------------------------------------------
// replay files

pub fn sig_hash(sig: &str) -> String {
    format!("{:08x}", crate::engine::fnv_bytes(crate::engine::fnv_new(), sig.as_bytes()) as u32)
}

pub struct ReplayFile {
    pub property: String,
    pub thorough: bool,
    pub verif_seed: u64,
    pub run_index: u64,
    pub signature: String,
    pub choices: Option<Vec<u64>>,
    pub event_log_hash: Option<u64>,
}

pub fn read_replay(path: &str) -> Result<ReplayFile, String> {
    let text = std::fs::read_to_string(path).map_err(|e| format!("cannot read {}: {}", path, e))?;
    let j = json::parse(&text).map_err(|e| format!("cannot parse {}: {}", path, e))?;
    let choices = j.get("choices").and_then(|c| c.as_arr()).map(|arr| {
        arr.iter()
            .map(|e| match e {
                J::Arr(t) if t.len() == 3 => t[2].as_u64().unwrap_or(0),
                other => other.as_u64().unwrap_or(0),
            })
            .collect::<Vec<u64>>()
    });
    Ok(ReplayFile {
        property: j.get("property").and_then(|v| v.as_str()).ok_or("replay file has no property")?.to_string(),
        thorough: j.get("tier").and_then(|v| v.as_str()) == Some("thorough"),
        verif_seed: j.get("verif_seed").and_then(|v| v.as_u64()).unwrap_or(runner::DEFAULT_SEED),
        run_index: j.get("run_index").and_then(|v| v.as_u64()).unwrap_or(0),
        signature: j.get("signature").and_then(|v| v.as_str()).unwrap_or("").to_string(),
        choices,
        event_log_hash: j.get("event_log_hash").and_then(|v| v.as_str()).and_then(|s| u64::from_str_radix(s, 16).ok()),
    })
}

fn choices_json(ch: &[(&'static str, u64, u64)]) -> J {
    J::Arr(ch.iter().map(|(l, n, v)| J::Arr(vec![J::s(*l), J::u(*n), J::u(*v)])).collect())
}

/// Child-process entry: regenerate the failing run, shrink it in-process, write the replay file.
pub fn shrink_main(spec: &PropSpec, thorough: bool, seed: u64, run_index: u64, sig: &str, out_path: &str) -> i32 {
    let orig = exec_generated(spec, seed, thorough, run_index, false);
    let orig_sig = orig.violation.as_ref().map(|v| v.sig.clone());
    if orig_sig.as_deref() != Some(sig) {
        eprintln!("shrink: run {} does not reproduce signature {} (got {:?})", run_index, sig, orig_sig);
        return 2;
    }
    let initial: Vec<u64> = orig.choices.iter().map(|c| c.2).collect();
    let original_len = initial.len();
    let (min, st) = shrink::shrink(
        initial,
        shrink::Budget {
            max_candidates: 6000,
            max_time: Duration::from_secs(45),
        },
        |cand| {
            let o = exec_replay(spec, cand.to_vec(), thorough, run_index, false);
            o.violation.map(|v| v.sig == sig).unwrap_or(false)
        },
    );
    // canonical re-execution with tracing
    let fin = exec_replay(spec, min, thorough, run_index, true);
    let v = match fin.violation {
        Some(ref v) if v.sig == sig => v.clone(),
        _ => {
            eprintln!("shrink: minimised stream lost the violation");
            return 2;
        }
    };
    let mut canon = fin.choices.clone();
    while canon.last().map(|c| c.2) == Some(0) {
        canon.pop();
    }
    let j = J::obj()
        .set("property", J::s(spec.id))
        .set("tier", J::s(if thorough { "thorough" } else { "quick" }))
        .set("verif_seed", J::u(seed))
        .set("run_index", J::u(run_index))
        .set("run_seed", J::u(runner::run_seed(seed, spec.id, run_index)))
        .set("signature", J::s(v.sig.clone()))
        .set("message", J::s(v.msg.clone()))
        .set("original_choices_len", J::u(original_len as u64))
        .set("shrink", J::obj().set("candidates", J::u(st.candidates)).set("accepted", J::u(st.accepted)))
        .set("event_log_hash", J::s(format!("{:016x}", fin.log_hash)))
        .set("choices", choices_json(&canon))
        .set("trace", J::arr_str(&fin.trace));
    if std::fs::write(out_path, j.to_string_pretty()).is_err() {
        return 2;
    }
    0
}

/// Fallback replay file when shrinking in a child was not possible (crash / hang classes):
/// replay regenerates the run from its seed.
fn write_unshrunk(spec: &PropSpec, a: &CheckArgs, f: &Found, path: &str) {
    let j = J::obj()
        .set("property", J::s(spec.id))
        .set("tier", J::s(if a.thorough { "thorough" } else { "quick" }))
        .set("verif_seed", J::u(a.seed))
        .set("run_index", J::u(f.run_index))
        .set("run_seed", J::u(runner::run_seed(a.seed, spec.id, f.run_index)))
        .set("signature", J::s(f.sig.clone()))
        .set("message", J::s(f.msg.clone()))
        .set("note", J::s("not minimised: the violation kills or hangs the process; replay regenerates the run from verif_seed and run_index"));
    let _ = std::fs::write(path, j.to_string_pretty());
}

fn run_child_with_timeout(mut cmd: Command, timeout: Duration) -> Option<std::process::ExitStatus> {
    let mut child = cmd.stdin(Stdio::null()).spawn().ok()?;
    let start = Instant::now();
    loop {
        match child.try_wait() {
            Ok(Some(s)) => return Some(s),
            Ok(None) => {
                if start.elapsed() > timeout {
                    let _ = child.kill();
                    let _ = child.wait();
                    return None;
                }
                std::thread::sleep(Duration::from_millis(10));
            }
            Err(_) => return None,
        }
    }
}

/// Replay in the current process (used by `replay` command and `try`).
pub fn replay_outcome(spec: &PropSpec, rf: &ReplayFile, tracing: bool) -> runner::RunOutcome {
    match rf.choices {
        Some(ref c) => exec_replay(spec, c.clone(), rf.thorough, rf.run_index, tracing),
        None => exec_generated(spec, rf.verif_seed, rf.thorough, rf.run_index, tracing),
    }
}

pub struct Known {
    pub open: Vec<(String, String, String)>, // (property, signature, description)
}

pub fn read_known(verif_dir: &str) -> Known {
    let mut k = Known { open: Vec::new() };
    let text = std::fs::read_to_string(format!("{}/known_findings.txt", verif_dir)).unwrap_or_default();
    for line in text.lines() {
        let line = line.trim();
        if let Some(rest) = line.strip_prefix("open:") {
            let rest = rest.trim();
            let mut prop = String::new();
            let mut sig = String::new();
            let mut desc = Vec::new();
            for tok in rest.split_whitespace() {
                if let Some(p) = tok.strip_prefix("property=") {
                    prop = p.to_string();
                } else if let Some(s) = tok.strip_prefix("signature=") {
                    sig = s.to_string();
                } else {
                    desc.push(tok);
                }
            }
            if !prop.is_empty() && !sig.is_empty() {
                k.open.push((prop, sig, desc.join(" ")));
            }
        }
    }
    k
}

fn sig_token(sig: &str) -> String {
    sig.replace(' ', "_")
}

/// The whole check.  Returns the process exit code.
pub fn check(spec: &PropSpec, a: &CheckArgs) -> i32 {
    let t0 = Instant::now();
    // stub self-tests first: a broken oracle must not pass for a library success
    if let Err(e) = crate::selftest::stubs() {
        eprintln!("HARNESS ERROR: stub self-test failed: {}", e);
        return 2;
    }
    let total = a.runs.unwrap_or(if a.thorough { spec.thorough_runs } else { spec.quick_runs });
    let watchdog = Duration::from_secs(if a.thorough { 120 } else { 60 });
    println!(
        "rtmpsim check property={} tier={} VERIF_SEED={} runs={} workers={}",
        spec.id,
        if a.thorough { "thorough" } else { "quick" },
        a.seed,
        total,
        a.workers
    );
    let agg = match run_workers(a, total, watchdog) {
        Ok(g) => g,
        Err(e) => {
            eprintln!("HARNESS ERROR: {}", e);
            return 2;
        }
    };
    let wall_runs = t0.elapsed().as_secs_f64();

    // harness panics are harness errors, never property violations
    if let Some(h) = agg.found.iter().find(|f| f.sig.starts_with("HARNESS/")) {
        eprintln!("HARNESS ERROR: run {}: {} -- {}", h.run_index, h.sig, h.msg);
        return 2;
    }

    // one representative (lowest run index) per distinct signature
    let mut by_sig: BTreeMap<String, Found> = BTreeMap::new();
    for f in agg.found.iter() {
        let e = by_sig.entry(f.sig.clone()).or_insert_with(|| f.clone());
        if f.run_index < e.run_index {
            *e = f.clone();
        }
    }
    let known = read_known(&a.verif_dir);
    let replay_dir = format!("{}/replays", a.verif_dir);
    let _ = std::fs::create_dir_all(&replay_dir);
    let mut exit = 0;
    let mut lines: Vec<String> = Vec::new();
    let mut n_viol = 0u64;
    for (sig, f) in by_sig.iter() {
        let is_known = known.open.iter().find(|(p, s, _)| p == spec.id && sig_token(sig) == *s);
        if let Some((_, _, desc)) = is_known {
            lines.push(format!("KNOWN-FINDING: property={} {} (signature {})", spec.id, desc, sig));
            continue;
        }
        n_viol += 1;
        let path = format!("{}/{}-{}-{}.json", replay_dir, spec.id, a.seed, sig_hash(sig));
        let supervision = sig.contains("/supervision/");
        let mut shrunk = false;
        // minimise at most 4 signatures per check (each costs up to two minutes); the others
        // get a replay file that regenerates the run from its seed
        if !supervision && n_viol <= 4 && !a.no_shrink {
            let exe = std::env::current_exe().unwrap();
            let mut cmd = Command::new(exe);
            cmd.arg("shrink")
                .arg("--property")
                .arg(spec.id)
                .arg("--tier")
                .arg(if a.thorough { "thorough" } else { "quick" })
                .arg("--seed")
                .arg(a.seed.to_string())
                .arg("--run-index")
                .arg(f.run_index.to_string())
                .arg("--sig")
                .arg(sig)
                .arg("--out")
                .arg(&path);
            if let Some(st) = run_child_with_timeout(cmd, Duration::from_secs(120)) {
                shrunk = st.success();
            }
        }
        if !shrunk {
            write_unshrunk(spec, a, f, &path);
        }
        // confirm the replay in a fresh process
        let exe = std::env::current_exe().unwrap();
        let mut cmd = Command::new(exe);
        cmd.arg("replay").arg("--file").arg(&path).arg("--quiet").stdout(Stdio::null()).stderr(Stdio::null());
        let confirmed = if supervision {
            // a crash / hang replay kills or stalls the child by construction
            match run_child_with_timeout(cmd, Duration::from_secs(if sig.ends_with("hang") { 20 } else { 120 })) {
                None => sig.ends_with("hang"),
                Some(st) => !st.success(),
            }
        } else {
            match run_child_with_timeout(cmd, Duration::from_secs(120)) {
                Some(st) => st.code() == Some(1),
                None => false,
            }
        };
        println!("violation: run_index={} signature={}", f.run_index, sig);
        println!("  {}", f.msg);
        println!("  replay file: {} (minimised: {}, reproduced in a fresh process: {})", path, shrunk, confirmed);
        lines.push(format!("VIOLATION property={} replay={}", spec.id, path));
        exit = 1;
    }

    // evidence
    let wall = t0.elapsed().as_secs_f64();
    if a.write_evidence {
        let mut missing_probes: Vec<String> = Vec::new();
        for p in spec.required_probes {
            if agg.probes.get(*p).copied().unwrap_or(0) == 0 {
                missing_probes.push(p.to_string());
            }
        }
        let runs_per_hour = if wall_runs > 0.0 { (agg.runs as f64 / wall_runs * 3600.0) as u64 } else { 0 };
        let mut cov = J::obj()
            .set("evaluations", J::u(agg.runs))
            .set("distinct_nontrivial", J::u(agg.sched.len() as u64))
            .set("rule", J::s(spec.rule))
            .set("samples", J::Arr(agg.samples.clone()))
            .set("nontrivial_runs", J::u(agg.nontrivial))
            .set("distinct_schedules", J::u(agg.sched.len() as u64))
            .set("distinct_schedules_is_lower_bound", J::Bool(agg.sched_capped))
            .set("distinct_states", J::u(agg.states.len() as u64))
            .set("runs_per_hour", J::u(runs_per_hour))
            .set("seeds_per_hour", J::u(runs_per_hour))
            .set("simulated_time_s", J::Float(agg.sim_time_ns as f64 / 1e9))
            .set("steps", J::u(agg.steps))
            .set("library_calls", J::u(agg.lib_calls))
            .set("bytes_delivered", J::u(agg.bytes_delivered))
            .set("faults_fired", J::map_u64_s(&agg.faults))
            .set("probes", J::map_u64_s(&agg.probes))
            .set("required_probes_at_zero", J::arr_str(&missing_probes))
            .set("worlds", J::map_u64_s(&agg.worlds))
            .set(
                "components",
                J::obj()
                    .set("real", J::Arr(spec.real.iter().map(|s| J::s(*s)).collect()))
                    .set("stub", J::Arr(spec.stub.iter().map(|s| J::s(*s)).collect())),
            )
            .set("workers", J::u(a.workers))
            .set("exhaustive", J::Bool(false));
        if by_sig.len() > 0 {
            cov.put(
                "violation_signatures",
                J::Arr(by_sig.keys().map(|s| J::s(s.clone())).collect()),
            );
        }
        let ev = J::obj()
            .set("property_id", J::s(spec.id))
            .set("tier", J::s(if a.thorough { "thorough" } else { "quick" }))
            .set("seed", J::u(a.seed))
            .set("level", J::s(spec.level))
            .set("coverage", cov)
            .set("assumptions", J::Arr(spec.assumptions.iter().map(|s| J::s(*s)).collect()))
            .set("wall_s", J::Float((wall * 100.0).round() / 100.0))
            .set("violations", J::u(n_viol));
        let dir = format!("{}/evidence", a.verif_dir);
        let _ = std::fs::create_dir_all(&dir);
        if let Err(e) = std::fs::write(format!("{}/{}.json", dir, spec.id), ev.to_string_pretty()) {
            eprintln!("HARNESS ERROR: cannot write evidence: {}", e);
            return 2;
        }
    }
    println!(
        "runs={} nontrivial={} distinct_schedules={} distinct_states={} wall={:.1}s",
        agg.runs,
        agg.nontrivial,
        agg.sched.len(),
        agg.states.len(),
        wall
    );
    for l in lines {
        println!("{}", l);
    }
    if exit == 0 {
        println!("OK property={} held on everything explored", spec.id);
    }
    exit
}
