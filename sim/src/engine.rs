//! Per-run context (choice stream, event log hash, schedule hash, trace, probes, fault
//! counters), violations, panic capture and the safety wrapper around library calls.

use crate::alloc;
use crate::choice::Ch;
use std::cell::RefCell;
use std::collections::BTreeMap;
use std::panic::{self, AssertUnwindSafe};

#[derive(Debug, Clone)]
pub struct Violation {
    /// `<property>/<oracle>/<class>[/<detail>]` -- never contains seeds, sizes or line numbers.
    pub sig: String,
    pub msg: String,
}

impl Violation {
    pub fn new(sig: impl Into<String>, msg: impl Into<String>) -> Violation {
        Violation {
            sig: sig.into(),
            msg: msg.into(),
        }
    }
}

pub type RunResult = Result<(), Violation>;

const FNV_OFFSET: u64 = 0xcbf2_9ce4_8422_2325;
const FNV_PRIME: u64 = 0x0000_0100_0000_01b3;

#[inline]
pub fn fnv_u64(mut h: u64, v: u64) -> u64 {
    for b in v.to_le_bytes() {
        h ^= b as u64;
        h = h.wrapping_mul(FNV_PRIME);
    }
    h
}

pub fn fnv_bytes(mut h: u64, bytes: &[u8]) -> u64 {
    for b in bytes {
        h ^= *b as u64;
        h = h.wrapping_mul(FNV_PRIME);
    }
    h
}

pub fn fnv_new() -> u64 {
    FNV_OFFSET
}

/// Counters that survive across runs inside one worker and are merged by the orchestrator.
#[derive(Default, Clone)]
pub struct Stats {
    pub probes: BTreeMap<&'static str, u64>,
    pub faults: BTreeMap<&'static str, u64>,
    pub worlds: BTreeMap<&'static str, u64>,
    pub steps: u64,
    pub sim_time_ns: u128,
    pub lib_calls: u64,
    pub bytes_delivered: u64,
}

pub struct Ctx {
    pub ch: Ch,
    pub prop: &'static str,
    pub tier_thorough: bool,
    pub run_index: u64,
    pub tracing: bool,
    pub trace: Vec<String>,
    pub log_hash: u64,
    pub sched_hash: u64,
    pub nontrivial: bool,
    pub stats: Stats,
    pub states: Vec<u64>,
    pub steps: u64,
    pub step_cap: u64,
    pub now_ns: u64,
}

impl Ctx {
    pub fn new(ch: Ch, prop: &'static str, tracing: bool) -> Ctx {
        Ctx {
            ch,
            prop,
            tier_thorough: false,
            run_index: 0,
            tracing,
            trace: Vec::new(),
            log_hash: fnv_new(),
            sched_hash: fnv_new(),
            nontrivial: false,
            stats: Stats::default(),
            states: Vec::new(),
            steps: 0,
            step_cap: 200_000,
            now_ns: 0,
        }
    }

    /// Record an event into the event-log hash (always) -- no PRNG, no clocks.
    #[inline]
    pub fn ev(&mut self, kind: u64, a: u64, b: u64) {
        let mut h = fnv_u64(self.log_hash, kind);
        h = fnv_u64(h, a);
        self.log_hash = fnv_u64(h, b);
    }

    #[inline]
    pub fn ev_bytes(&mut self, kind: u64, bytes: &[u8]) {
        let h = fnv_u64(self.log_hash, kind);
        let h = fnv_u64(h, bytes.len() as u64);
        self.log_hash = fnv_bytes(h, bytes);
    }

    /// Record a schedule element (actor, event kind, bucket, fault kind).
    #[inline]
    pub fn sched(&mut self, actor: u64, kind: u64, bucket: u64) {
        let mut h = fnv_u64(self.sched_hash, actor);
        h = fnv_u64(h, kind);
        self.sched_hash = fnv_u64(h, bucket);
    }

    #[inline]
    pub fn tr<F: FnOnce() -> String>(&mut self, f: F) {
        if self.tracing {
            if self.trace.len() < 4000 {
                let s = f();
                self.trace.push(s);
            } else if self.trace.len() == 4000 {
                self.trace.push("... trace truncated ...".to_string());
            }
        }
    }

    /// Trace line that wants the simulated time.
    #[inline]
    pub fn trt<F: FnOnce(u64) -> String>(&mut self, f: F) {
        if self.tracing {
            let now = self.now_ns;
            self.tr(|| f(now));
        }
    }

    #[inline]
    pub fn probe(&mut self, name: &'static str) {
        *self.stats.probes.entry(name).or_insert(0) += 1;
    }

    #[inline]
    pub fn probe_n(&mut self, name: &'static str, n: u64) {
        *self.stats.probes.entry(name).or_insert(0) += n;
    }

    #[inline]
    pub fn fault(&mut self, name: &'static str) {
        *self.stats.faults.entry(name).or_insert(0) += 1;
    }

    #[inline]
    pub fn world(&mut self, name: &'static str) {
        *self.stats.worlds.entry(name).or_insert(0) += 1;
    }

    /// Abstract state reached (hashed); the worker keeps the set.
    #[inline]
    pub fn state(&mut self, h: u64) {
        self.states.push(h);
    }

    #[inline]
    pub fn step(&mut self) -> bool {
        self.steps += 1;
        self.steps <= self.step_cap
    }

    pub fn bucket_len(len: usize) -> u64 {
        match len {
            0 => 0,
            1 => 1,
            2..=3 => 2,
            4..=15 => 3,
            16..=127 => 4,
            128..=4095 => 5,
            _ => 6,
        }
    }
}

// ---------------------------------------------------------------------------------------------
// panic capture

thread_local! {
    static LAST_PANIC: RefCell<Option<(String, String)>> = RefCell::new(None);
}

pub fn install_panic_hook() {
    panic::set_hook(Box::new(|info| {
        let loc = info
            .location()
            .map(|l| l.file().to_string())
            .unwrap_or_else(|| "?".to_string());
        let msg = if let Some(s) = info.payload().downcast_ref::<&str>() {
            (*s).to_string()
        } else if let Some(s) = info.payload().downcast_ref::<String>() {
            s.clone()
        } else {
            "non-string panic payload".to_string()
        };
        LAST_PANIC.with(|c| *c.borrow_mut() = Some((loc, msg)));
    }));
}

fn normalise(msg: &str) -> String {
    // strip digit runs so the signature is stable under shrinking
    let mut out = String::new();
    let mut in_digits = false;
    for c in msg.chars() {
        if c.is_ascii_digit() {
            if !in_digits {
                out.push('N');
            }
            in_digits = true;
        } else {
            in_digits = false;
            out.push(if c == '\n' { ' ' } else { c });
        }
        if out.len() > 120 {
            break;
        }
    }
    out
}

fn short_file(path: &str) -> String {
    // keep the last two path components
    let parts: Vec<&str> = path.split('/').collect();
    let n = parts.len();
    if n >= 2 {
        format!("{}/{}", parts[n - 2], parts[n - 1])
    } else {
        path.to_string()
    }
}

pub fn is_harness_path(path: &str) -> bool {
    path.contains("/verif/sim/") || path.starts_with("src/")
}

/// Run a whole simulated run, converting a panic into a violation.
pub fn run_catching<F: FnOnce(&mut Ctx) -> RunResult>(ctx: &mut Ctx, f: F) -> RunResult {
    LAST_PANIC.with(|c| *c.borrow_mut() = None);
    let prop = ctx.prop;
    let r = panic::catch_unwind(AssertUnwindSafe(|| f(ctx)));
    alloc::reset_tag();
    match r {
        Ok(r) => r,
        Err(_) => {
            let (file, msg) = LAST_PANIC
                .with(|c| c.borrow_mut().take())
                .unwrap_or_else(|| ("?".to_string(), "?".to_string()));
            if is_harness_path(&file) {
                Err(Violation::new(
                    format!("HARNESS/panic/{}:{}", short_file(&file), normalise(&msg)),
                    format!("simulator panicked at {}: {}", file, msg),
                ))
            } else {
                Err(Violation::new(
                    format!(
                        "{}/safety/panic/{}:{}",
                        prop,
                        short_file(&file),
                        normalise(&msg)
                    ),
                    format!("library panicked at {}: {}", file, msg),
                ))
            }
        }
    }
}

// ---------------------------------------------------------------------------------------------
// safety wrapper for library input calls: tags allocations, checks the attributed heap bound

pub const HEAP_BASE: i64 = 1 << 20;
pub const HEAP_PER_BYTE: i64 = 256;
pub const HEAP_MSG: i64 = 2 * 16 * 1024 * 1024;

pub struct NodeMem {
    pub tag: u32,
    pub received: u64,
    pub baseline: i64,
}

impl NodeMem {
    pub fn new(tag: u32) -> NodeMem {
        alloc::reset_peak(tag as usize);
        NodeMem {
            tag,
            received: 0,
            baseline: alloc::live(tag as usize),
        }
    }

    /// Run an input-processing library call for this node under its allocation tag and check
    /// the heap bound afterwards.
    pub fn call<R>(
        &mut self,
        ctx: &mut Ctx,
        input_len: usize,
        f: impl FnOnce() -> R,
    ) -> Result<R, Violation> {
        self.received += input_len as u64;
        ctx.stats.lib_calls += 1;
        let r = alloc::tagged(self.tag, f);
        let peak = alloc::peak(self.tag as usize) - self.baseline;
        let bound = HEAP_BASE + HEAP_PER_BYTE * self.received as i64 + HEAP_MSG;
        if peak > bound {
            return Err(Violation::new(
                format!("{}/safety/heap-bound", ctx.prop),
                format!(
                    "node tag {}: peak attributed live heap {} bytes exceeds bound {} after {} bytes received",
                    self.tag, peak, bound, self.received
                ),
            ));
        }
        Ok(r)
    }
}
